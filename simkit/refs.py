"""Small reference models and comparison helpers shared by the engines (see DESIGN.md section 4)."""

import numpy as np

from .kernel import Violation


def dense(M):
    if hasattr(M, "toarray"):
        return np.asarray(M.toarray())
    return np.asarray(M)


def maxabs(x) -> float:
    x = np.asarray(x)
    if x.size == 0:
        return 0.0
    return float(np.max(np.abs(x)))


def close(a, b, rtol=1e-10, atol=0.0, scale=None):
    """|a-b| <= atol + rtol*scale, scale = max|b| (reference) unless given. Returns (ok, err, bound)."""
    a = np.asarray(a)
    b = np.asarray(b)
    if a.shape != b.shape:
        return False, np.inf, 0.0
    if a.size == 0:
        return True, 0.0, 0.0
    if not (np.all(np.isfinite(a)) and np.all(np.isfinite(b))):
        same = np.array_equal(np.isfinite(a), np.isfinite(b)) and np.allclose(
            a[np.isfinite(a)], b[np.isfinite(b)], rtol=rtol, atol=atol
        )
        return bool(same), np.inf, 0.0
    s = maxabs(b) if scale is None else scale
    bound = atol + rtol * s
    err = maxabs(a - b)
    return err <= bound, err, bound


def require_close(inv, what, a, b, rtol=1e-10, atol=0.0, scale=None, site=None):
    ok, err, bound = close(a, b, rtol, atol, scale)
    if not ok:
        a = np.asarray(a)
        b = np.asarray(b)
        raise Violation(
            inv,
            f"{what}: shapes {a.shape} vs {b.shape}, max|diff|={err:.3e} > bound {bound:.3e} "
            f"(max|ref|={maxabs(b) if b.size else 0:.3e})",
            site,
        )


def sparse_close(inv, what, A, B, rtol=1e-10, site=None, atol=0.0):
    """Sparse matrices compared entrywise (dense only when small)."""
    if A.shape != B.shape:
        raise Violation(inv, f"{what}: shape {A.shape} vs reference {B.shape}", site)
    D = (A - B).tocsr() if hasattr(A, "tocsr") else A - B
    err = maxabs(D.data) if hasattr(D, "data") and not isinstance(D, np.ndarray) else maxabs(D)
    ref = maxabs(B.data) if hasattr(B, "data") and not isinstance(B, np.ndarray) else maxabs(B)
    if not np.isfinite(err) or err > rtol * max(ref, 1e-300) + atol:
        raise Violation(inv, f"{what}: max|diff|={err:.3e}, max|ref|={ref:.3e}", site)


def cond_est(A) -> float:
    """Dense 2-norm condition number (matrices here are small by construction)."""
    Ad = dense(A)
    if Ad.size == 0:
        return 1.0
    try:
        s = np.linalg.svd(Ad, compute_uv=False)
    except np.linalg.LinAlgError:
        return np.inf
    if s[-1] == 0:
        return np.inf
    return float(s[0] / s[-1])


# --------------------------------------------------------------------------
# RefScatter: dense loop summation of element arrays (C03, C20)
# --------------------------------------------------------------------------
def ref_scatter_matrix(groups, dof_n, Ndof, dtype=float):
    """groups: list of (connect (Ne,nPe), A_e (Ne, nPe*dof_n, nPe*dof_n) or None).
    Global dof of (node, component) = node*dof_n + component; local dof order is node-major."""
    A = np.zeros((Ndof, Ndof), dtype=dtype)
    for connect, A_e in groups:
        if A_e is None:
            continue
        A_e = np.asarray(A_e)
        Ne, nPe = connect.shape
        for e in range(Ne):
            dofs = (connect[e][:, None] * dof_n + np.arange(dof_n)[None, :]).ravel()
            for i, r in enumerate(dofs):
                for j, c in enumerate(dofs):
                    A[r, c] += A_e[e, i, j]
    return A


def ref_scatter_vector(groups, dof_n, Ndof, dtype=float):
    F = np.zeros((Ndof, 1), dtype=dtype)
    for connect, F_e in groups:
        if F_e is None:
            continue
        F_e = np.asarray(F_e).reshape(connect.shape[0], -1)
        Ne, nPe = connect.shape
        for e in range(Ne):
            dofs = (connect[e][:, None] * dof_n + np.arange(dof_n)[None, :]).ravel()
            for i, r in enumerate(dofs):
                F[r, 0] += F_e[e, i]
    return F
