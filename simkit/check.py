"""CLI: /venv/bin/python -m simkit.check <property id> --tier quick|thorough

exit 0: the property held on everything explored
exit 1: `VIOLATION property=<id> replay=<path>` printed
exit 2: harness error (never a verdict)
"""

import argparse
import os
import sys


def main(argv=None) -> int:
    from simkit import sut

    sut.ensure_env()
    ap = argparse.ArgumentParser()
    ap.add_argument("prop")
    ap.add_argument("--tier", default=os.environ.get("VERIF_TIER", "quick"), choices=["quick", "thorough"])
    ap.add_argument("--runs", type=int, default=None)
    ap.add_argument("--fault-runs", type=int, default=None)
    ap.add_argument("--wall", type=float, default=None)
    args = ap.parse_args(argv)
    seed = int(os.environ.get("VERIF_SEED", "1"))

    from simkit.plans import PLANS

    if args.prop not in PLANS:
        print(f"HARNESS-ERROR: no check registered for {args.prop}", file=sys.stderr)
        return 2
    engine, tiers = PLANS[args.prop]
    if engine == "mpi":
        os.environ["SIMKIT_FAKE_MPI"] = "1"
    plan = dict(tiers[args.tier])
    if args.runs is not None:
        plan["runs"] = args.runs
    if args.fault_runs is not None:
        plan["fault_runs"] = args.fault_runs
    if args.wall is not None:
        plan["wall_s"] = args.wall

    from simkit import batch

    return batch.run_batch(args.prop, engine, args.tier, seed, plan)


if __name__ == "__main__":
    sys.exit(main())
