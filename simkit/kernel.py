"""Simulation kernel: run context, recorded traces, execution, delta-debugging.

A *run* is (engine, cfg, op list).  cfg is the swarm configuration drawn from the seed,
the op list is either generated on the fly from the seed (the scheduler *is* the user
script) or given (replay / shrinking).  Every op is a JSON-able dict {"op": name, ...};
faults ride inside the op they hit ({"fault": {...}}) so that shrinking keeps them aligned.
"""

import contextlib
import hashlib
import io
import json
import os
import sys
import traceback
from collections import Counter

import numpy as np


# ----------------------------------------------------------------------------
# outcomes
# ----------------------------------------------------------------------------
class Violation(Exception):
    """The property's oracle failed on the real code."""

    def __init__(self, invariant: str, detail: str = "", site: str = None):
        super().__init__(f"{invariant}: {detail}")
        self.invariant = invariant
        self.detail = detail
        self.site = site


class Discard(Exception):
    """The run left the domain the property speaks about (e.g. a nonlinear solve that legitimately
    does not converge, an ill-conditioned system).  Counted, never flagged."""

    def __init__(self, reason: str):
        super().__init__(reason)
        self.reason = reason


class SutError(Exception):
    """An exception raised by EasyFEA (or a library below it) inside a `ctx.sut()` block."""

    def __init__(self, exc: BaseException):
        super().__init__(f"{type(exc).__name__}: {exc}")
        self.exc = exc
        self.kind = type(exc).__name__
        self.site = _site_of(exc)


class InjectedFault(Exception):
    """Base class of everything the simulator injects; never an EasyFEA defect by itself."""


def _site_of(exc: BaseException) -> str:
    """file:function of the innermost EasyFEA frame of the traceback (None if there is none)."""
    site = None
    for fs in traceback.extract_tb(exc.__traceback__):
        fn = fs.filename.replace("\\", "/")
        if "/EasyFEA/" in fn:
            site = f"{fn.split('/EasyFEA/')[-1]}:{fs.name}"
    return site


# ----------------------------------------------------------------------------
# hashing helpers (never draw random numbers, never read a clock)
# ----------------------------------------------------------------------------
def h_update(h, obj) -> None:
    """Feeds obj into hash h, structurally, with array bytes."""
    if obj is None:
        h.update(b"N")
    elif isinstance(obj, (bool, np.bool_)):
        h.update(b"b1" if obj else b"b0")
    elif isinstance(obj, (int, np.integer)):
        h.update(b"i" + str(int(obj)).encode())
    elif isinstance(obj, (float, np.floating)):
        h.update(b"f" + np.float64(obj).tobytes())
    elif isinstance(obj, complex):
        h.update(b"c" + np.complex128(obj).tobytes())
    elif isinstance(obj, str):
        h.update(b"s" + obj.encode())
    elif isinstance(obj, bytes):
        h.update(b"y" + obj)
    elif isinstance(obj, np.ndarray):
        a = np.ascontiguousarray(obj)
        h.update(b"a" + str(a.dtype).encode() + str(a.shape).encode())
        if a.dtype == object:
            for x in a.ravel():
                h_update(h, x)
        else:
            h.update(a.tobytes())
    elif isinstance(obj, (list, tuple)):
        h.update(b"l" + str(len(obj)).encode())
        for x in obj:
            h_update(h, x)
    elif isinstance(obj, dict):
        h.update(b"d" + str(len(obj)).encode())
        for k in sorted(obj, key=str):
            h_update(h, str(k))
            h_update(h, obj[k])
    elif hasattr(obj, "tocsr"):  # scipy sparse
        m = obj.tocsr().copy()
        m.sum_duplicates()
        m.sort_indices()
        h.update(b"m" + str(m.shape).encode())
        h.update(np.ascontiguousarray(m.indptr).astype(np.int64).tobytes())
        h.update(np.ascontiguousarray(m.indices).astype(np.int64).tobytes())
        h.update(np.ascontiguousarray(m.data).tobytes())
    else:
        h.update(b"r" + repr(obj).encode())


def digest_of(*objs) -> str:
    h = hashlib.sha256()
    for o in objs:
        h_update(h, o)
    return h.hexdigest()[:16]


def arr_rng(aseed: int, *more) -> np.random.Generator:
    """Generator for the arrays of one op: derived from the integer stored in the op, so a replayed
    or shrunk op regenerates the same numbers whatever shape the current state asks for."""
    return np.random.default_rng([int(aseed), *[int(m) for m in more]])


# ----------------------------------------------------------------------------
# run context
# ----------------------------------------------------------------------------
_OPEN_KEYS = None


def open_finding_keys() -> set:
    """Keys of the findings listed as open in /verif/known_findings.json (read once per process)."""
    global _OPEN_KEYS
    if _OPEN_KEYS is None:
        path = os.path.join(os.path.dirname(os.path.dirname(os.path.abspath(__file__))), "known_findings.json")
        try:
            with open(path) as f:
                _OPEN_KEYS = {k["key"] for k in json.load(f).get("findings", []) if k.get("status") == "open"}
        except FileNotFoundError:
            _OPEN_KEYS = set()
    return _OPEN_KEYS


class Ctx:
    def __init__(self, seed: int, tier: str, strict: bool = False):
        self.seed = seed
        self.tier = tier
        self.strict = strict  # True: do not steer around listed findings (used to reproduce them)
        self.probes = Counter()
        self.faults = Counter()  # fault kinds that actually fired
        self.events = []  # (i, op name, outcome, digest)
        self.hasher = hashlib.sha256()
        self.vtime = 0.0  # virtual wall clock (seconds)
        self.phys_time = 0.0  # integrated physical time, sum of dt over steps taken
        self.checks = 0  # oracle comparisons made
        self.mutations = 0  # state-changing ops applied
        self.states = set()  # abstract states
        self.bigrams = set()
        self.discards = Counter()
        self.sets = {}  # named sets of things reached (e.g. distinct rank schedules), merged over the batch
        self._last_op = None

    def reached(self, name: str, value) -> None:
        self.sets.setdefault(name, set()).add(value)

    def avoids(self, key: str) -> bool:
        """True when the generator / oracle must steer around a finding that is listed as open, so that
        it cannot mask other violations; every such finding is reproduced separately from its own replay file."""
        return (not self.strict) and key in open_finding_keys()

    def probe(self, name: str, n: int = 1) -> None:
        self.probes[name] += n

    def fired(self, kind: str) -> None:
        self.faults[kind] += 1

    def checked(self, n: int = 1) -> None:
        self.checks += n

    def now(self) -> float:
        """The only clock the system under test reads (Tic / MPI.Wtime / datetime)."""
        self.vtime += 1e-3
        return self.vtime

    @contextlib.contextmanager
    def sut(self):
        """Everything called inside is EasyFEA: its exceptions become SutError, stdout is swallowed."""
        buf = io.StringIO()
        try:
            with contextlib.redirect_stdout(buf):
                yield
        except (Violation, Discard, SutError):
            raise
        except InjectedFault as e:
            raise SutError(e)
        except Exception as e:  # noqa: BLE001
            raise SutError(e)

    def log(self, i: int, name: str, outcome: str, dig: str) -> None:
        self.events.append((i, name, outcome, dig))
        # (the virtual clock is not hashed: how often the code reads it depends on one-time lazy initialisations of the
        #  process -- gmsh, memoised tables -- not on the run)
        self.hasher.update(f"{i}|{name}|{outcome}|{dig}\n".encode())
        if self._last_op is not None:
            self.bigrams.add((self._last_op, name))
        self._last_op = name

    def digest(self) -> str:
        return self.hasher.hexdigest()[:24]


# ----------------------------------------------------------------------------
# world protocol
# ----------------------------------------------------------------------------
class World:
    """One simulated system + its reference model.  Subclasses implement the five hooks."""

    PROPERTY = "C00"
    ENGINE = "none"

    def __init__(self, cfg: dict, ctx: Ctx):
        self.cfg = cfg
        self.ctx = ctx

    @classmethod
    def gen_config(cls, rng: np.random.Generator, tier: str, faults: bool) -> dict:
        raise NotImplementedError

    def gen_op(self, rng: np.random.Generator, frng: np.random.Generator) -> dict:
        """Next op, enabled in the current model state."""
        raise NotImplementedError

    def apply(self, op: dict) -> str:
        """Applies op to the live system and the reference; checks invariants; returns the outcome
        class ('ok', 'skip', 'exc:<Type>', ...).  Raises Violation / Discard."""
        raise NotImplementedError

    def observe(self):
        """Observable state fed to the event-log digest."""
        return None

    def abstract_state(self):
        return None

    def finish(self) -> None:
        """End-of-run checks over the recorded history."""

    def close(self) -> None:
        """Releases seams / scratch directories."""


# ----------------------------------------------------------------------------
# execution
# ----------------------------------------------------------------------------
class Trace:
    def __init__(self, engine, seed, tier, cfg):
        self.engine = engine
        self.seed = seed
        self.tier = tier
        self.cfg = cfg
        self.ops = []
        self.status = "ok"  # ok | violation | discard | harness
        self.violation = None  # dict(invariant, detail, site, op_index)
        self.harness = None
        self.discard = None
        self.digest = None
        self.stats = {}

    def to_replay(self, prop: str) -> dict:
        return {
            "format": "simkit-replay-1",
            "property": prop,
            "engine": self.engine,
            "seed": self.seed,
            "tier": self.tier,
            "cfg": self.cfg,
            "ops": self.ops,
            "expect": dict(self.violation or {}, digest=self.digest),
        }


def execute(world_cls, seed: int, tier: str, cfg: dict = None, ops: list = None,
            nops: int = None, faults: bool = False, strict: bool = False) -> Trace:
    """Runs one simulation.  cfg/ops None => drawn from the seed; given => replayed verbatim."""
    ctx = Ctx(seed, tier, strict)
    if cfg is None:
        cfg = world_cls.gen_config(np.random.default_rng([seed, 0]), tier, faults)
    trace = Trace(world_cls.ENGINE, seed, tier, cfg)
    rng = np.random.default_rng([seed, 1])
    frng = np.random.default_rng([seed, 2])
    world = None
    i = -1
    try:
        try:
            world = world_cls(cfg, ctx)
            n = len(ops) if ops is not None else (nops if nops is not None else cfg.get("nops", 20))
            for i in range(n):
                if ops is not None:
                    op = ops[i]
                else:
                    op = world.gen_op(rng, frng)
                    if op is None:
                        break
                trace.ops.append(op)
                outcome = world.apply(op)
                if outcome != "skip" and op.get("_mut", True):
                    ctx.mutations += 1
                ctx.vtime += 1.0
                ctx.log(i, op["op"], outcome, digest_of(world.observe()))
                st = world.abstract_state()
                if st is not None:
                    ctx.states.add(digest_of(st))
            i = len(trace.ops)
            world.finish()
        finally:
            if world is not None:
                world.close()
    except Violation as v:
        trace.status = "violation"
        trace.violation = {
            "invariant": v.invariant,
            "detail": v.detail[:2000],
            "site": v.site,
            "op_index": i,
        }
    except Discard as d:
        trace.status = "discard"
        trace.discard = d.reason
    except SutError as e:
        # an EasyFEA exception that no oracle claimed: the world is supposed to decide about
        # every one of them, so this is a gap in the harness, not a verdict.
        trace.status = "harness"
        trace.harness = f"unclassified SUT exception at op {i}: {e} @ {e.site}\n" + "".join(
            traceback.format_exception(e.exc)
        )[-3000:]
    except Exception:  # noqa: BLE001
        trace.status = "harness"
        trace.harness = f"harness exception at op {i}:\n" + traceback.format_exc()[-4000:]
    trace.digest = ctx.digest()
    th = hashlib.sha1(json.dumps([cfg, trace.ops], sort_keys=True, default=str).encode()).hexdigest()[:16]
    trace.stats = {
        "ops": len(trace.ops),
        "mutations": ctx.mutations,
        "checks": ctx.checks,
        "probes": dict(ctx.probes),
        "faults": dict(ctx.faults),
        "vtime": ctx.vtime,
        "phys_time": ctx.phys_time,
        "states": sorted(ctx.states),
        "bigrams": sorted("%s>%s" % b for b in ctx.bigrams),
        "sets": {k: sorted(v) for k, v in ctx.sets.items()},
        "run_discards": dict(ctx.discards),
        "trace_hash": th,
        "nontrivial": bool(ctx.mutations >= 3 and ctx.checks >= 1),
        "events": len(ctx.events),
    }
    return trace


# ----------------------------------------------------------------------------
# minimisation (ddmin over the op list; faults are part of ops)
# ----------------------------------------------------------------------------
def same_failure(t: Trace, invariant: str) -> bool:
    return t.status == "violation" and t.violation["invariant"] == invariant


def shrink(world_cls, trace: Trace, max_runs: int = 150, budget_s: float = 90.0) -> Trace:
    import time

    t0 = time.monotonic()
    inv = trace.violation["invariant"]
    best = trace
    ops = list(trace.ops[: trace.violation["op_index"] + 1]) if trace.violation["op_index"] < len(trace.ops) else list(trace.ops)
    runs = 0

    def attempt(cand):
        nonlocal runs, best
        if runs >= max_runs or time.monotonic() - t0 > budget_s:
            return False
        runs += 1
        t = execute(world_cls, trace.seed, trace.tier, cfg=trace.cfg, ops=cand)
        if same_failure(t, inv):
            best = t
            return True
        return False

    # make sure the truncated list still fails (finish()-time violations need the full list)
    if not attempt(ops):
        ops = list(trace.ops)
    n = 2
    while len(ops) >= 2 and runs < max_runs and time.monotonic() - t0 <= budget_s:
        chunk = max(1, len(ops) // n)
        reduced = False
        for start in range(0, len(ops), chunk):
            cand = ops[:start] + ops[start + chunk:]
            if cand and attempt(cand):
                ops = cand
                n = max(n - 1, 2)
                reduced = True
                break
        if not reduced:
            if chunk == 1:
                break
            n = min(n * 2, len(ops))
    # strip faults that are not needed
    for k, op in enumerate(list(ops)):
        if "fault" in op:
            cand = [dict((a, b) for a, b in o.items() if not (j == k and a == "fault")) for j, o in enumerate(ops)]
            if attempt(cand):
                ops = cand
    # engine-specific argument simplification
    simp = getattr(world_cls, "simplify_op", None)
    if simp is not None:
        for k in range(len(ops)):
            for alt in simp(ops[k]):
                cand = ops[:k] + [alt] + ops[k + 1:]
                if attempt(cand):
                    ops = cand
                    break
    best.stats["shrink_runs"] = runs
    return best


def quiet_stdio():
    """Workers: EasyFEA prints from places not wrapped by ctx.sut(); keep the harness' stdout clean."""
    sys.stdout = open(os.devnull, "w")
