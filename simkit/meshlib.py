"""Mesh library: meshes are generated with gmsh once (before any scheduled run), kept as raw arrays
(connectivity per group, coordinates, node tags) and rebuilt as brand-new EasyFEA objects on demand.
The scheduled part of a run never calls gmsh (engine `mpi` excepted, for `mesh.partition`)."""

import contextlib
import io

import numpy as np

_LIB = {}


class RawMesh:
    def __init__(self, name, groups, coord, tags):
        self.name = name
        self.groups = groups  # list[(elemType str, connect (Ne,nPe) int)] in dict order
        self.coord = coord  # (Nn,3)
        self.tags = tags  # {elemType str: {tag: nodes}}

    @property
    def Nn(self):
        return self.coord.shape[0]

    @property
    def main(self):
        """(elemType, connect) of the highest-dimension group(s)."""
        from EasyFEA.FEM._group_elem import GroupElemFactory

        dims = {}
        for et, c in self.groups:
            gmshId = GroupElemFactory.DICT_ELEMTYPE[et][0]
            dims[et] = GroupElemFactory.Get_ElemInFos(gmshId)[2]
        d = max(dims.values())
        return [(et, c) for et, c in self.groups if dims[et] == d]

    def digest_parts(self):
        return [self.name, [(et, c) for et, c in self.groups], self.coord]


def node_tags(g) -> dict:
    """{tag: nodes} of an element group through its public accessors."""
    return {t: np.asarray(g.Get_Nodes_Tag(t), dtype=int) for t in g.nodeTags}


def raw_of(mesh, name="?") -> RawMesh:
    groups = []
    tags = {}
    for et, g in mesh.dict_groupElem.items():
        groups.append((str(et.value if hasattr(et, "value") else et), np.array(g.connect, dtype=int)))
        tags[groups[-1][0]] = {t: np.array(n, dtype=int) for t, n in node_tags(g).items()}
    return RawMesh(name, groups, np.array(mesh.coord, dtype=float), tags)


def build(raw: RawMesh, coord=None, perm=None):
    """A brand-new Mesh from raw arrays (no cache, no observer, no shared object).

    perm: new node id of old node i (node renumbering)."""
    from EasyFEA.FEM._group_elem import GroupElemFactory
    from EasyFEA import Mesh
    from EasyFEA.FEM._utils import ElemType

    X = np.array(raw.coord if coord is None else coord, dtype=float)
    if perm is not None:
        perm = np.asarray(perm, dtype=int)
        Xp = np.empty_like(X)
        Xp[perm] = X
        X = Xp
    d = {}
    for et, connect in raw.groups:
        c = connect if perm is None else perm[connect]
        g = GroupElemFactory.Create(ElemType(et), np.array(c, dtype=int), X.copy())
        for tag, nodes in raw.tags.get(et, {}).items():
            n = nodes if perm is None else perm[nodes]
            g.Set_Tag(np.array(n, dtype=int), tag)
        d[ElemType(et)] = g
    return Mesh(d)


def _gen():
    from EasyFEA import ElemType
    from EasyFEA.Geoms import Domain, Point, Line

    lib = {}

    def dom(w=1.0, h=1.0, ms=0.5):
        return Domain(Point(), Point(w, h), meshSize=ms)

    specs2d = [
        ("tri3_a", dom(1, 1, 0.5), ElemType.TRI3),
        ("tri3_b", dom(1.5, 1, 0.4), ElemType.TRI3),
        ("quad4_a", dom(1, 1, 0.5), ElemType.QUAD4),
        ("quad4_b", dom(2, 1, 0.5), ElemType.QUAD4),
        ("tri6_a", dom(1, 1, 0.6), ElemType.TRI6),
        ("quad8_a", dom(1, 1, 0.6), ElemType.QUAD8),
        ("quad9_a", dom(1, 1, 0.7), ElemType.QUAD9),
        ("tri10_a", dom(1, 1, 0.9), ElemType.TRI10),
        ("tri3_c", dom(1, 1, 0.25), ElemType.TRI3),
    ]
    for name, d, et in specs2d:
        lib[name] = raw_of(d.Mesh_2D([], et), name)
    specs3d = [
        ("hexa8_a", dom(1, 1, 0.6), ElemType.HEXA8, 2),
        ("tetra4_a", dom(1, 1, 0.7), ElemType.TETRA4, 2),
        ("prism6_a", dom(1, 1, 0.7), ElemType.PRISM6, 2),
        ("tetra10_a", dom(1, 1, 1.0), ElemType.TETRA10, 1),
        ("hexa20_a", dom(1, 1, 1.0), ElemType.HEXA20, 1),
    ]
    for name, d, et, nl in specs3d:
        lib[name] = raw_of(d.Mesh_Extrude([], [0, 0, 0.5], [nl], et), name)
    lib["mixed_a"] = _mixed(2, 2, "mixed_a")
    lib["mixed_b"] = _mixed(3, 2, "mixed_b")
    return lib


def _mixed(nx, ny, name):
    """[0, 2] x [0, 1]: TRI3 on the left half, QUAD4 on the right half (what gmsh gives when only some surfaces are
    recombined), groups in gmsh id order (TRI3 before QUAD4: not alphabetical), boundary SEG2 group with the edge tags
    L0 (bottom), L1 (right), L2 (top), L3 (left) and S0 on both surface groups.  Opt-in: see names(mixed=True)."""
    xs, ys = np.linspace(0, 2, 2 * nx + 1), np.linspace(0, 1, ny + 1)
    X, Y = np.meshgrid(xs, ys, indexing="ij")
    coord = np.c_[X.ravel(), Y.ravel(), np.zeros(X.size)]

    def n(i, j):
        return i * (ny + 1) + j

    tris, quads, segs = [], [], []
    for i in range(2 * nx):
        for j in range(ny):
            a, b, c, d = n(i, j), n(i + 1, j), n(i + 1, j + 1), n(i, j + 1)
            if i < nx:
                tris += [[a, b, c], [a, c, d]]
            else:
                quads += [[a, b, c, d]]
    for i in range(2 * nx):
        segs += [[n(i, 0), n(i + 1, 0)], [n(i + 1, ny), n(i, ny)]]
    for j in range(ny):
        segs += [[n(2 * nx, j), n(2 * nx, j + 1)], [n(0, j + 1), n(0, j)]]
    tris, quads, segs = np.array(tris), np.array(quads), np.array(segs)
    nodes = np.arange(coord.shape[0])
    edge = {"L0": nodes[coord[:, 1] == 0], "L1": nodes[coord[:, 0] == 2], "L2": nodes[coord[:, 1] == 1], "L3": nodes[coord[:, 0] == 0]}
    tags = {"SEG2": edge, "TRI3": {"S0": np.unique(tris)}, "QUAD4": {"S0": np.unique(quads)}}
    raw = RawMesh(name, [("SEG2", segs), ("TRI3", tris), ("QUAD4", quads)], coord, tags)
    raw.mixed = True
    return raw


def library() -> dict:
    """{name: RawMesh}.  Generated once per process (before forking workers)."""
    global _LIB
    if not _LIB:
        with contextlib.redirect_stdout(io.StringIO()):
            _LIB = _gen()
    return _LIB


def names(dim=None, maxNn=None, order=None, mixed=False):
    """Names of the library meshes; meshes with several main-dimension groups only on request."""
    out = []
    for k, r in library().items():
        if getattr(r, "mixed", False) and not mixed:
            continue
        et = r.main[0][0]
        d = 3 if et.startswith(("HEXA", "TETRA", "PRISM")) else (2 if et.startswith(("TRI", "QUAD")) else 1)
        if dim is not None and d != dim:
            continue
        if maxNn is not None and r.Nn > maxNn:
            continue
        out.append(k)
    return out
