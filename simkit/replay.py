"""CLI: /venv/bin/python -m simkit.replay <replay.json>

Re-executes a recorded run (configuration + operation list + faults) in a fresh interpreter, without
drawing from the PRNG.  exit 1 + VIOLATION line if the recorded violation reproduces (same invariant),
exit 0 if the run is clean, exit 3 if it fails differently, exit 2 on harness errors."""

import json
import sys


def replay_file(path: str):
    from simkit import sut
    import os

    with open(path) as f:
        if json.load(f).get("engine") == "mpi":
            os.environ["SIMKIT_FAKE_MPI"] = "1"
    sut.load()
    from simkit import meshlib, kernel
    from simkit.engines import get
    import contextlib
    import io
    import warnings

    warnings.simplefilter("ignore")
    with open(path) as f:
        rp = json.load(f)
    meshlib.library()
    wc = get(rp["engine"])
    if hasattr(wc, "prepare"):
        wc.prepare(rp.get("tier", "quick"))
    with contextlib.redirect_stdout(io.StringIO()):
        tr = kernel.execute(wc, rp["seed"], rp.get("tier", "quick"), cfg=rp["cfg"], ops=rp["ops"], strict=True)
    return rp, tr


def main(argv=None) -> int:
    from simkit import sut

    sut.ensure_env()
    argv = sys.argv[1:] if argv is None else argv
    if not argv:
        print("usage: python -m simkit.replay <file>", file=sys.stderr)
        return 2
    rp, tr = replay_file(argv[0])
    exp = rp.get("expect", {})
    print(f"replay {argv[0]}: status={tr.status} digest={tr.digest} (recorded {exp.get('digest')})")
    if tr.status == "harness":
        print("HARNESS-ERROR:", tr.harness, file=sys.stderr)
        return 2
    if tr.status == "violation":
        v = tr.violation
        print(f"  invariant={v['invariant']} op_index={v['op_index']} site={v.get('site')} :: {v['detail'][:400]}")
        if exp.get("invariant") in (None, v["invariant"]):
            same = "exact" if tr.digest == exp.get("digest") and v["op_index"] == exp.get("op_index") else "same invariant"
            print(f"VIOLATION property={rp['property']} replay={argv[0]}  ({same})")
            return 1
        print(f"different failure than recorded ({exp.get('invariant')})")
        return 3
    return 0


if __name__ == "__main__":
    sys.exit(main())
