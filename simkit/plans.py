"""Budgets per property and tier.  `runs` / `fault_runs` are upper bounds; `wall_s` stops submission of new seeds
(every seed is a deterministic run, so a time-limited batch never makes a verdict flaky: it only bounds how many
seeds are explored)."""


def _p(engine, q_runs, q_faults, t_runs, t_faults, per_task=180):
    # quick: a FIXED number of seeds (sized for ~30-40 s on 16 idle cores) so that the work reported in the evidence
    # file does not depend on machine load; the wall limit is only a safety net.  thorough: wall-limited soak.
    return (engine, {
        "quick": {"runs": q_runs, "fault_runs": q_faults, "wall_s": 900, "per_task_s": per_task},
        "thorough": {"runs": t_runs, "fault_runs": t_faults, "wall_s": 1000, "per_task_s": 2 * per_task},
    })


PLANS = {
    "C03": _p("asm", 9000, 3500, 300000, 100000),
    "C04": _p("bc", 8000, 3000, 300000, 100000),
    "C05": _p("dyn", 7000, 2500, 300000, 100000),
    "C11": _p("law", 14000, 0, 600000, 0),
    "C14": _p("fresh", 3600, 1200, 200000, 60000),
    "C15": _p("hist", 6000, 3000, 300000, 150000),
    "C17": _p("pf", 6000, 1800, 200000, 50000),
    "C18": _p("hyper", 450, 150, 40000, 10000, per_task=300),
    "C19": _p("mat", 4000, 1000, 200000, 40000),
    "C20": _p("mpi", 2200, 800, 150000, 50000, per_task=300),
}
