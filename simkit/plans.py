"""Budgets per property and tier.  `runs` / `fault_runs` are upper bounds; `wall_s` stops submission."""

PLANS = {
    "C03": ("asm", {
        "quick": {"runs": 600, "fault_runs": 0, "wall_s": 70, "per_task_s": 120},
        "thorough": {"runs": 60000, "fault_runs": 0, "wall_s": 900, "per_task_s": 300},
    }),
    "C04": ("bc", {
        "quick": {"runs": 400, "fault_runs": 100, "wall_s": 70, "per_task_s": 120},
        "thorough": {"runs": 30000, "fault_runs": 8000, "wall_s": 900, "per_task_s": 300},
    }),
    "C05": ("dyn", {
        "quick": {"runs": 400, "fault_runs": 100, "wall_s": 70, "per_task_s": 120},
        "thorough": {"runs": 40000, "fault_runs": 10000, "wall_s": 900, "per_task_s": 300},
    }),
    "C11": ("law", {
        "quick": {"runs": 1500, "fault_runs": 0, "wall_s": 70, "per_task_s": 120},
        "thorough": {"runs": 200000, "fault_runs": 0, "wall_s": 900, "per_task_s": 300},
    }),
    "C14": ("fresh", {
        "quick": {"runs": 220, "fault_runs": 60, "wall_s": 70, "per_task_s": 120},
        "thorough": {"runs": 20000, "fault_runs": 5000, "wall_s": 900, "per_task_s": 300},
    }),
    "C15": ("hist", {
        "quick": {"runs": 300, "fault_runs": 120, "wall_s": 70, "per_task_s": 120},
        "thorough": {"runs": 30000, "fault_runs": 12000, "wall_s": 900, "per_task_s": 300},
    }),
    "C17": ("pf", {
        "quick": {"runs": 400, "fault_runs": 80, "wall_s": 70, "per_task_s": 180},
        "thorough": {"runs": 30000, "fault_runs": 6000, "wall_s": 900, "per_task_s": 300},
    }),
    "C18": ("hyper", {
        "quick": {"runs": 160, "fault_runs": 40, "wall_s": 75, "per_task_s": 240},
        "thorough": {"runs": 12000, "fault_runs": 3000, "wall_s": 900, "per_task_s": 400},
    }),
    "C19": ("mat", {
        "quick": {"runs": 600, "fault_runs": 100, "wall_s": 70, "per_task_s": 120},
        "thorough": {"runs": 60000, "fault_runs": 10000, "wall_s": 900, "per_task_s": 300},
    }),
    "C20": ("mpi", {
        "quick": {"runs": 200, "fault_runs": 60, "wall_s": 75, "per_task_s": 240},
        "thorough": {"runs": 15000, "fault_runs": 4000, "wall_s": 900, "per_task_s": 400},
    }),
}
