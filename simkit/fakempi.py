"""In-process MPI world for EasyFEA: fake `mpi4py`, stub `petsc4py`, simulated ranks as baton-passing threads.

No hook in /repo: `install()` sets a launcher variable and registers the fake modules in `sys.modules` *before*
EasyFEA is imported.  `MPI_SIZE` / `MPI_RANK` inside EasyFEA are then proxy objects that read the world of the
calling thread: a rank thread sees (size N, its rank), any other thread (the harness) sees a serial world.

Every communicator call is a rendez-vous: the calling rank parks, the seeded scheduler decides who runs next,
and when all ranks have arrived with the same collective the result is computed once and handed back.  Exactly
one thread runs at any time, so one seed is one exactly repeatable interleaving.
"""

import os
import sys
import threading
import types

import numpy as np

_tls = threading.local()
_WORLD = None  # the world currently running (one at a time per process)


def current_rank():
    return getattr(_tls, "rank", None)


class _IntProxy:
    """int-like object whose value is read at every use."""

    def __init__(self, fn, name):
        self._fn = fn
        self._name = name

    def _v(self):
        return int(self._fn())

    def __int__(self):
        return self._v()

    __index__ = __int__

    def __eq__(self, o):
        return self._v() == o

    def __ne__(self, o):
        return self._v() != o

    def __lt__(self, o):
        return self._v() < o

    def __le__(self, o):
        return self._v() <= o

    def __gt__(self, o):
        return self._v() > o

    def __ge__(self, o):
        return self._v() >= o

    def __hash__(self):
        return hash(self._v())

    def __bool__(self):
        return bool(self._v())

    def __add__(self, o):
        return self._v() + o

    __radd__ = __add__

    def __sub__(self, o):
        return self._v() - o

    def __rsub__(self, o):
        return o - self._v()

    def __mul__(self, o):
        return self._v() * o

    __rmul__ = __mul__

    def __format__(self, spec):
        return format(self._v(), spec)

    def __str__(self):
        return str(self._v())

    def __repr__(self):
        return f"<{self._name}={self._v()}>"


def _size():
    return _WORLD.size if (_WORLD is not None and current_rank() is not None) else 1


def _rank():
    r = current_rank()
    return r if r is not None else 0


SIZE = _IntProxy(_size, "MPI_SIZE")
RANK = _IntProxy(_rank, "MPI_RANK")


class Deadlock(Exception):
    def __init__(self, msg, logs):
        super().__init__(msg)
        self.logs = logs


class RankFailed(Exception):
    def __init__(self, rank, exc):
        super().__init__(f"rank {rank}: {type(exc).__name__}: {exc}")
        self.rank = rank
        self.exc = exc


class JobAborted(BaseException):
    """Raised inside rank threads when the simulated job is killed (BaseException: nothing may swallow it)."""


# ----------------------------------------------------------------------------
# the world: ranks, scheduler, collectives
# ----------------------------------------------------------------------------
class World:
    def __init__(self, size, rng, ctx=None, starve=None, abort_after=None):
        self.size = size
        self.rng = rng  # seeded generator owning every scheduling decision
        self.ctx = ctx
        self.starve = starve  # rank that is only scheduled when nobody else can run
        self.abort_after = abort_after  # kill the job after this many completed collectives
        self.threads = [None] * size
        self.go = [threading.Event() for _ in range(size)]
        self.back = threading.Event()  # rank -> scheduler: "I parked or finished"
        self.state = ["new"] * size  # new | runnable | waiting | done | failed
        self.pending = [None] * size  # (kind, payload) of the collective a rank waits in
        self.result = [None] * size
        self.error = [None] * size
        self.retval = [None] * size
        self.log = [[] for _ in range(size)]  # per-rank collective log
        self.n_collectives = 0
        self.schedule = []  # sequence of ranks given the baton
        self.clock = [0.0] * size
        self.aborted = False

    # -- called from rank threads ------------------------------------------------
    def collective(self, kind, payload):
        r = current_rank()
        self.log[r].append(kind)
        self.pending[r] = (kind, payload)
        self.state[r] = "waiting"
        self._park(r)
        if self.aborted:
            raise JobAborted()
        out = self.result[r]
        self.result[r] = None
        return out

    def _park(self, r):
        self.go[r].clear()
        self.back.set()
        self.go[r].wait()

    def wtime(self):
        r = current_rank()
        if r is None:
            return 0.0
        self.clock[r] += 1e-3
        return self.clock[r]

    # -- scheduler ---------------------------------------------------------------
    def run(self, script):
        """script(rank) runs on every rank; returns the list of return values."""
        global _WORLD
        _WORLD = self

        def body(r):
            _tls.rank = r
            self.go[r].wait()
            try:
                if self.aborted:
                    raise JobAborted()
                self.retval[r] = script(r)
                self.state[r] = "done"
            except JobAborted:
                self.state[r] = "done"
            except BaseException as e:  # noqa: BLE001
                self.error[r] = e
                self.state[r] = "failed"
            finally:
                self.back.set()

        for r in range(self.size):
            t = threading.Thread(target=body, args=(r,), daemon=True, name=f"simrank-{r}")
            self.threads[r] = t
            self.state[r] = "runnable"
            t.start()
        try:
            self._loop()
        finally:
            # never leave threads parked
            if any(s in ("runnable", "waiting") for s in self.state):
                self.aborted = True
                for r in range(self.size):
                    if self.state[r] in ("runnable", "waiting"):
                        self.back.clear()
                        self.go[r].set()
                        self.back.wait(5)
            for t in self.threads:
                t.join(5)
            _WORLD = None
        for r in range(self.size):
            if self.state[r] == "failed":
                raise RankFailed(r, self.error[r])
        return self.retval

    def _give(self, r):
        self.schedule.append(r)
        self.back.clear()
        self.go[r].set()
        self.back.wait()

    def _loop(self):
        while True:
            if any(s == "failed" for s in self.state):
                return
            runnable = [r for r in range(self.size) if self.state[r] == "runnable"]
            if runnable:
                cand = [r for r in runnable if r != self.starve] or runnable
                r = cand[int(self.rng.integers(len(cand)))]
                self.state[r] = "running"
                self._give(r)
                if self.state[r] == "running":
                    self.state[r] = "runnable"
                continue
            waiting = [r for r in range(self.size) if self.state[r] == "waiting"]
            if not waiting:
                return  # everybody done
            done = [r for r in range(self.size) if self.state[r] == "done"]
            kinds = {self.pending[r][0] for r in waiting}
            if done or len(kinds) != 1:
                raise Deadlock(
                    f"collective mismatch: waiting {[(r, self.pending[r][0]) for r in waiting]}, finished ranks {done}",
                    [list(l) for l in self.log],
                )
            kind = kinds.pop()
            outs = _COLLECTIVES[kind.split(":")[0]](self, [self.pending[r][1] for r in range(self.size)])
            self.n_collectives += 1
            if self.ctx is not None:
                self.ctx.probe("collective_" + kind.split(":")[0])
            if self.abort_after is not None and self.n_collectives >= self.abort_after:
                self.aborted = True
                if self.ctx is not None:
                    self.ctx.fired("mpi:job_abort")
            # hand the results back; the ranks become runnable again, in an order the scheduler decides later
            for r in range(self.size):
                self.result[r] = outs[r]
                self.pending[r] = None
                self.state[r] = "runnable"


# ----------------------------------------------------------------------------
# collectives
# ----------------------------------------------------------------------------
def _op_reduce(op, vals):
    if op == "SUM":
        out = vals[0]
        for v in vals[1:]:
            out = out + v
        return out
    if op == "MIN":
        return min(vals) if not isinstance(vals[0], np.ndarray) else np.minimum.reduce(vals)
    if op == "MAX":
        return max(vals) if not isinstance(vals[0], np.ndarray) else np.maximum.reduce(vals)
    if op == "LOR":
        return any(bool(v) for v in vals)
    raise NotImplementedError(op)


def _c_allreduce(w, pl):
    ops = {p[1] for p in pl}
    if len(ops) != 1:
        raise Deadlock(f"allreduce with different operations {ops}", [list(l) for l in w.log])
    out = _op_reduce(pl[0][1], [p[0] for p in pl])
    return [out.copy() if isinstance(out, np.ndarray) else out for _ in pl]


def _c_allgather(w, pl):
    return [list(pl) for _ in pl]


def _c_gather(w, pl):
    root = pl[0][1]
    return [[p[0] for p in pl] if r == root else None for r in range(len(pl))]


def _c_scatter(w, pl):
    root = pl[0][1]
    data = pl[root][0]
    return [data[r] for r in range(len(pl))]


def _c_Allgatherv(w, pl):
    # payload: (sendarray, recvbuf, counts, displs)
    for r, (send, recv, counts, displs) in enumerate(pl):
        for q, (sq, _, _, _) in enumerate(pl):
            sq = np.asarray(sq).ravel()
            if int(counts[q]) != sq.size:
                raise Deadlock(f"Allgatherv: rank {r} expects {int(counts[q])} items from rank {q}, which sends {sq.size}", [list(l) for l in w.log])
            recv[int(displs[q]): int(displs[q]) + sq.size] = sq
    return [None] * len(pl)


def _c_Allreduce_inplace(w, pl):
    op = pl[0][1]
    out = _op_reduce(op, [np.array(p[0]) for p in pl])
    for p in pl:
        p[0][...] = out
    return [None] * len(pl)


def _c_ksp_solve(w, pl):
    """Stub of the distributed solve: every rank contributes its owned CSR rows (global PETSc column indices) and
    right-hand side; the global system is solved with SciPy and each rank gets its owned slice."""
    import scipy.sparse as sp
    import scipy.sparse.linalg as sla

    N = pl[0]["N"]
    rows, cols, vals, rhs = [], [], [], np.zeros(N)
    off = 0
    offs = []
    for p in pl:
        offs.append(off)
        indptr, indices, data = p["indptr"], p["indices"], p["data"]
        nloc = len(indptr) - 1
        for i in range(nloc):
            sl = slice(indptr[i], indptr[i + 1])
            rows.append(np.full(indptr[i + 1] - indptr[i], off + i))
            cols.append(indices[sl])
            vals.append(data[sl])
        rhs[off: off + nloc] = p["rhs"]
        off += nloc
    if off != N:
        raise Deadlock(f"distributed matrix: the ranks own {off} rows in total, the system has {N}", [list(l) for l in w.log])
    A = sp.csr_matrix((np.concatenate(vals) if vals else [], (np.concatenate(rows) if rows else [], np.concatenate(cols) if cols else [])), shape=(N, N))
    x = sla.spsolve(A.tocsc(), rhs) if N else np.zeros(0)
    x = np.atleast_1d(x)
    return [x[offs[r]: offs[r] + (len(pl[r]["indptr"]) - 1)].copy() for r in range(len(pl))]


_COLLECTIVES = {
    "allreduce": _c_allreduce,
    "allgather": _c_allgather,
    "gather": _c_gather,
    "scatter": _c_scatter,
    "Allgatherv": _c_Allgatherv,
    "Allreduce": _c_Allreduce_inplace,
    "ksp_solve": _c_ksp_solve,
}


# ----------------------------------------------------------------------------
# fake mpi4py
# ----------------------------------------------------------------------------
class _Comm:
    def Get_size(self):
        return SIZE

    def Get_rank(self):
        return RANK

    def _w(self):
        if _WORLD is None or current_rank() is None:
            raise RuntimeError("MPI collective called outside a simulated rank")
        return _WORLD

    def allreduce(self, value, op="SUM"):
        return self._w().collective("allreduce", (value, op))

    def allgather(self, value):
        return self._w().collective("allgather", value)

    def gather(self, obj, root=0):
        return self._w().collective("gather", (obj, root))

    def scatter(self, data, root=0):
        return self._w().collective("scatter", (data, root))

    def Allgatherv(self, sendbuf, recvbuf):
        send = sendbuf[0] if isinstance(sendbuf, (list, tuple)) else sendbuf
        recv, counts, displs = recvbuf[0], recvbuf[1], recvbuf[2]
        return self._w().collective("Allgatherv", (send, recv, counts, displs))

    def Allreduce(self, sendbuf, recvbuf, op="SUM"):
        assert sendbuf is _MPI.IN_PLACE, "only the in-place form is used by EasyFEA"
        return self._w().collective("Allreduce", (recvbuf, op))

    def Barrier(self):
        return self._w().collective("allgather", None)


_MPI = types.ModuleType("mpi4py.MPI")
_MPI.COMM_WORLD = _Comm()
_MPI.SUM, _MPI.MIN, _MPI.MAX, _MPI.LOR = "SUM", "MIN", "MAX", "LOR"
_MPI.IN_PLACE = object()
_MPI.DOUBLE = "DOUBLE"
_MPI._typedict = {c: c for c in "dfilqLQbBhHIc?"}
_MPI.Wtime = lambda: (_WORLD.wtime() if _WORLD is not None else 0.0)


# ----------------------------------------------------------------------------
# stub petsc4py
# ----------------------------------------------------------------------------
class _Vec:
    def __init__(self, n):
        self._a = np.zeros(n)

    @property
    def array(self):
        return self._a

    @array.setter
    def array(self, v):
        self._a[...] = v


class _Mat:
    def __init__(self):
        self.csr = None
        self.sizes = None
        self.local = None

    def create(self, comm=None):
        return self

    def setType(self, t):
        self.type = t

    def setSizes(self, sizes):
        self.local, self.N = int(sizes[0][0]), int(sizes[0][1])

    def setPreallocationCSR(self, csr):
        pass

    def setValuesCSR(self, indptr, indices, data, mode=None):
        self.csr = (np.array(indptr), np.array(indices), np.array(data))

    def assemble(self):
        pass

    def createAIJ(self, shape, csr=None):
        self.local, self.N = int(shape[0]), int(shape[1])
        self.csr = tuple(np.array(x) for x in csr)
        return self

    def createVecLeft(self):
        return _Vec(self.local)

    def createVecRight(self):
        return _Vec(self.local)


class _PC:
    def setType(self, t):
        pass

    def setFactorSolverType(self, t):
        pass


class _KSP:
    def __init__(self):
        self.is_converged = True
        self.mat = None

    def create(self, comm=None):
        return self

    def setOperators(self, m):
        self.mat = m

    def setType(self, t):
        pass

    def getPC(self):
        return _PC()

    def solve(self, rhs, x):
        m = self.mat
        payload = {"N": m.N, "indptr": m.csr[0], "indices": m.csr[1], "data": m.csr[2], "rhs": rhs.array.copy()}
        if _WORLD is not None and current_rank() is not None:
            x.array = _WORLD.collective("ksp_solve", payload)
        else:  # serial use of the PETSc path
            x.array = _c_ksp_solve(None, [payload])[0]


class _Sys:
    @staticmethod
    def hasExternalPackage(name):
        return True

    @staticmethod
    def isInitialized():
        return True


class _InsertMode:
    ADD_VALUES = "ADD_VALUES"
    INSERT_VALUES = "INSERT_VALUES"


_PETSc = types.ModuleType("petsc4py.PETSc")
_PETSc.Mat = _Mat
_PETSc.KSP = _KSP
_PETSc.Sys = _Sys
_PETSc.InsertMode = _InsertMode
_PETSc.garbage_cleanup = lambda: None


def install():
    """Must run before EasyFEA is imported."""
    if "EasyFEA" in sys.modules:
        raise RuntimeError("fake MPI must be installed before EasyFEA is imported")
    os.environ["PMI_SIZE"] = "2"  # any launcher variable: makes EasyFEA.Utilities._mpi import mpi4py
    mpi4py = types.ModuleType("mpi4py")
    mpi4py.MPI = _MPI
    sys.modules["mpi4py"] = mpi4py
    sys.modules["mpi4py.MPI"] = _MPI
    petsc4py = types.ModuleType("petsc4py")
    petsc4py.PETSc = _PETSc
    petsc4py.init = lambda *a, **k: None
    sys.modules["petsc4py"] = petsc4py
    sys.modules["petsc4py.PETSc"] = _PETSc
