"""Batch driver: fans seeds out over worker processes, merges reports, minimises and reports
violations, matches known findings, writes the evidence file."""

import faulthandler
import json
import os
import sys
import time
import traceback
import warnings
from collections import Counter
from concurrent.futures import ProcessPoolExecutor, as_completed
import multiprocessing as mp

from . import kernel, sut

VERIF = sut.VERIF
KNOWN = os.path.join(VERIF, "known_findings.json")

REAL_STUB = {
    "EasyFEA (assembly, BCs, time schemes, models, save/load, partitioner, MPI bookkeeping)": "real",
    "NumPy, SciPy sparse/dense solvers, pickle": "real",
    "gmsh mesh generation": "real, run before the scheduled part of a run",
    "file system": "real bytes on tmpfs behind a fault-injecting open()/write()/read() wrapper",
    "wall clock (Tic, datetime.now)": "virtual clock owned by the simulator",
    "mpi4py communicator": "stub (in-process, baton-passing rank threads) -- engine mpi only",
    "PETSc Mat/Vec/KSP": "stub (collects owned CSR rows, solves globally with SciPy) -- engine mpi only",
    "pypardiso": "absent in the sandbox, never exercised",
}


def _worker_init():
    warnings.simplefilter("ignore")
    kernel.quiet_stdio()


def _task(args):
    engine, seed, tier, faults, per_task_s, extra = args
    faulthandler.dump_traceback_later(per_task_s, exit=True)
    try:
        from .engines import get

        wc = get(engine)
        t0 = time.monotonic()
        if extra:
            wc = wc.variant(extra) if hasattr(wc, "variant") else wc
        tr = kernel.execute(wc, seed, tier, faults=faults)
        out = {
            "seed": seed,
            "faults": faults,
            "status": tr.status,
            "stats": tr.stats,
            "violation": tr.violation,
            "harness": tr.harness,
            "discard": tr.discard,
            "digest": tr.digest,
            "wall": time.monotonic() - t0,
        }
        if tr.status == "violation" or extra == "sample" or seed % 97 == 0:
            out["cfg"] = tr.cfg
            out["ops"] = tr.ops
        elif tr.stats.get("nontrivial"):
            out["cfg"] = tr.cfg
            out["ops"] = tr.ops if len(json.dumps(tr.ops, default=str)) < 6000 else tr.ops[:8]
        return out
    except BaseException:  # noqa: BLE001
        return {"seed": seed, "faults": faults, "status": "harness", "harness": traceback.format_exc()[-4000:], "stats": {}, "wall": 0.0}
    finally:
        faulthandler.cancel_dump_traceback_later()


def load_known() -> list:
    if not os.path.exists(KNOWN):
        return []
    with open(KNOWN) as f:
        return json.load(f).get("findings", [])


def _cfg_get(cfg, dotted):
    cur = cfg
    for part in dotted.split("."):
        if not isinstance(cur, dict) or part not in cur:
            return None
        cur = cur[part]
    return cur


def match_known(prop: str, violation: dict, ops: list, known: list, cfg: dict = None):
    """An open finding matches only if property, invariant, site, the trigger op kinds AND the configuration it is
    about (`cfg_match`: simulation type, regularisation, ...) all match: another violation of the same property --
    e.g. another simulation type failing in the same call -- is still reported."""
    kinds = [o["op"] for o in ops]
    for k in known:
        if k.get("status") != "open" or k.get("property") != prop:
            continue
        if k.get("cfg_match") and not all(_cfg_get(cfg or {}, kk) == vv for kk, vv in k["cfg_match"].items()):
            continue
        if k.get("invariant") != violation["invariant"]:
            continue
        if k.get("site") and k["site"] != (violation.get("site") or ""):
            continue
        if k.get("detail_contains") and k["detail_contains"] not in violation.get("detail", ""):
            continue
        trig = k.get("trigger_ops")
        if trig and not all(t in kinds for t in trig):
            continue
        if k.get("max_ops") and len(ops) > k["max_ops"]:
            continue
        return k
    return None


def run_batch(prop: str, engine: str, tier: str, base_seed: int, plan: dict) -> int:
    """plan: {"runs": n, "fault_runs": m, "wall_s": budget, "per_task_s": cap, "workers": k}"""
    t0 = time.monotonic()
    sut.load()
    from . import meshlib
    from .engines import get

    meshlib.library()  # generated once, before forking
    wc = get(engine)
    if hasattr(wc, "prepare"):
        wc.prepare(tier)
    known = load_known()
    # replay files of earlier runs of this property are stale by definition
    _rd = os.path.join(VERIF, "replays", prop)
    if os.path.isdir(_rd):
        for _f in os.listdir(_rd):
            if _f.endswith(".json"):
                os.remove(os.path.join(_rd, _f))

    workers = int(os.environ.get("VERIF_WORKERS", plan.get("workers", min(16, os.cpu_count() or 4))))
    per_task = int(plan.get("per_task_s", 120))
    budget = float(plan.get("wall_s", 80))
    plain = [(engine, base_seed * 1_000_003 + i, tier, False, per_task, None) for i in range(int(plan["runs"]))]
    faulty = [(engine, base_seed * 1_000_003 + 500_000 + i, tier, True, per_task, None) for i in range(int(plan.get("fault_runs", 0)))]
    # interleave the two configurations in proportion, so that a wall-clock limit cuts both alike
    tasks = []
    i = j = 0
    while i < len(plain) or j < len(faulty):
        if j >= len(faulty) or (i < len(plain) and i * max(len(faulty), 1) <= j * max(len(plain), 1)):
            tasks.append(plain[i])
            i += 1
        else:
            tasks.append(faulty[j])
            j += 1

    results = []
    harness_errors = []
    ctxmp = mp.get_context("fork")
    submitted = 0
    try:
        with ProcessPoolExecutor(max_workers=workers, mp_context=ctxmp, initializer=_worker_init) as ex:
            pending = set()
            it = iter(tasks)
            exhausted = False

            def fill():
                nonlocal exhausted, submitted
                while not exhausted and len(pending) < workers * 2:
                    if time.monotonic() - t0 > budget:
                        exhausted = True
                        break
                    try:
                        t = next(it)
                    except StopIteration:
                        exhausted = True
                        break
                    pending.add(ex.submit(_task, t))
                    submitted += 1

            fill()
            while pending:
                done = next(as_completed(pending))
                pending.discard(done)
                try:
                    results.append(done.result())
                except Exception as e:  # noqa: BLE001  (dead worker, timeout kill)
                    harness_errors.append(f"worker died: {e!r}")
                    break
                fill()
    except Exception as e:  # noqa: BLE001
        harness_errors.append(f"pool failure: {e!r}")

    # ---- regression replays: minimised traces of findings that were fixed must stay clean
    regress_dir = os.path.join(VERIF, "regress", prop)
    regress_bad = []
    n_regress = 0
    if os.path.isdir(regress_dir):
        import contextlib as _cl
        import io as _io

        for fn in sorted(os.listdir(regress_dir)):
            if not fn.endswith(".json"):
                continue
            path = os.path.join(regress_dir, fn)
            with open(path) as f:
                rp = json.load(f)
            with _cl.redirect_stdout(_io.StringIO()):
                tr = kernel.execute(get(rp["engine"]), rp["seed"], rp.get("tier", tier), cfg=rp["cfg"], ops=rp["ops"])
            n_regress += 1
            if tr.status == "violation":
                regress_bad.append((path, tr.violation))
            elif tr.status == "harness":
                harness_errors.append(f"regress {fn}: {tr.harness}")

    # ---- open findings: each one is reproduced from its own replay file (strict mode), then steered around
    findings_dir = os.path.join(VERIF, "findings", prop)
    known_lines = []
    for k in known:
        if k.get("property") != prop or k.get("status") != "open":
            continue
        path = os.path.join(VERIF, k.get("replay", os.path.join("findings", prop, k["key"] + ".json")))
        if not os.path.exists(path):
            harness_errors.append(f"open finding {k['key']} has no replay file {path}")
            continue
        import contextlib as _cl2
        import io as _io2

        with open(path) as f:
            rp = json.load(f)
        with _cl2.redirect_stdout(_io2.StringIO()):
            tr = kernel.execute(get(rp["engine"]), rp["seed"], rp.get("tier", tier), cfg=rp["cfg"], ops=rp["ops"], strict=True)
        if tr.status == "violation" and tr.violation["invariant"] == k.get("invariant"):
            known_lines.append(f"KNOWN-FINDING: property={prop} {k['key']}: {k.get('what', '')}")
        elif tr.status == "harness":
            harness_errors.append(f"finding replay {k['key']}: {tr.harness}")
        elif tr.status == "violation":
            regress_bad.append((path, tr.violation))
        else:
            known_lines.append(f"NOTE: property={prop} listed finding {k['key']} no longer reproduces on this tree")

    # ---- merge
    results.sort(key=lambda r: (r["faults"], r["seed"]))
    status = Counter(r["status"] for r in results)
    probes, faults_fired, discards = Counter(), Counter(), Counter()
    states, bigrams, nontrivial_hashes = set(), set(), set()
    reached = {}
    ops_total = checks_total = 0
    vtime = phys = 0.0
    samples = []
    for r in results:
        st = r.get("stats") or {}
        probes.update(st.get("probes", {}))
        faults_fired.update(st.get("faults", {}))
        states.update(st.get("states", []))
        bigrams.update(st.get("bigrams", []))
        for k, v in st.get("sets", {}).items():
            reached.setdefault(k, set()).update(v)
        discards.update(st.get("run_discards", {}))
        ops_total += st.get("ops", 0)
        checks_total += st.get("checks", 0)
        vtime += st.get("vtime", 0.0)
        phys += st.get("phys_time", 0.0)
        if r["status"] == "discard":
            discards[r.get("discard") or "?"] += 1
        if r["status"] in ("ok", "violation") and st.get("nontrivial"):
            nontrivial_hashes.add(st["trace_hash"])
            if len(samples) < 3 and "ops" in r:
                samples.append({"seed": r["seed"], "faults": r["faults"], "cfg": r["cfg"], "ops": r["ops"][:40]})
        if r["status"] == "harness":
            harness_errors.append(f"seed {r['seed']}: {r.get('harness')}")

    # ---- violations: minimise, match against known findings, write replay files
    import contextlib
    import io

    new_violations = []
    known_hits = Counter()
    vio = [r for r in results if r["status"] == "violation"]
    replay_dir = os.path.join(VERIF, "replays", prop)
    groups = {}
    # violations are grouped by invariant, call site AND the part of the configuration that open findings are about
    # (simulation type, regularisation, ...): a group is only as "known" as every one of its minimised members
    sig_keys = sorted({kk for k in known if k.get("property") == prop for kk in (k.get("cfg_match") or {})} | {"type", "actor"})
    for r in vio:
        sig = tuple(str(_cfg_get(r.get("cfg") or {}, kk)) for kk in sig_keys)
        groups.setdefault((r["violation"]["invariant"], r["violation"].get("site"), sig), []).append(r)
    t_shrink0 = time.monotonic()
    for key, grp in sorted(groups.items(), key=lambda kv: str(kv[0])):
        grp.sort(key=lambda r: (len(r.get("ops", [])), r["seed"]))
        verdicts = []
        for j, r in enumerate(grp):
            if j >= 3 or time.monotonic() - t_shrink0 > 300:
                break
            tr = kernel.Trace(engine, r["seed"], tier, r["cfg"])
            tr.ops, tr.status, tr.violation, tr.digest, tr.stats = r["ops"], "violation", r["violation"], r["digest"], r["stats"]
            try:
                with contextlib.redirect_stdout(io.StringIO()):
                    small = kernel.shrink(wc, tr)
            except Exception:  # noqa: BLE001
                harness_errors.append("shrink failed: " + traceback.format_exc()[-1500:])
                small = tr
            k = match_known(prop, small.violation, small.ops, known, r.get("cfg"))
            verdicts.append(k)
            if k:
                known_hits[k["key"]] += 1
                continue
            os.makedirs(replay_dir, exist_ok=True)
            path = os.path.join(replay_dir, f"{r['seed']}.json")
            with open(path, "w") as f:
                json.dump(small.to_replay(prop), f, indent=1, default=_json_default)
            new_violations.append((r, path, small))
        rest = grp[len(verdicts):]
        if rest:
            if verdicts and all(v is not None for v in verdicts):
                known_hits[verdicts[0]["key"]] += len(rest)
            else:
                for r in rest[:5]:
                    new_violations.append((r, None, None))

    wall = time.monotonic() - t0
    evaluations = len(results)
    for line in known_lines:
        print(line)
    for k in known:
        if k.get("property") == prop and k.get("status") == "open" and known_hits.get(k["key"]):
            print(f"KNOWN-FINDING: property={prop} {k['key']}: {k.get('what', '')} (hit {known_hits[k['key']]}x in the random batch)")
    for path, v in regress_bad:
        print(f"VIOLATION property={prop} replay={path}")
        print(f"  (regression of a fixed finding) invariant={v['invariant']} :: {v['detail'][:300]}")
    for r, path, small in new_violations:
        v = (small.violation if small is not None else r["violation"])
        if path is None:
            os.makedirs(replay_dir, exist_ok=True)
            path = os.path.join(replay_dir, f"{r['seed']}.json")
            tr = kernel.Trace(engine, r["seed"], tier, r["cfg"])
            tr.ops, tr.violation, tr.digest = r["ops"], v, r["digest"]
            with open(path, "w") as f:
                json.dump(tr.to_replay(prop), f, indent=1, default=_json_default)
        print(f"VIOLATION property={prop} replay={path}")
        print(f"  invariant={v['invariant']} seed={r['seed']} site={v.get('site')} ops={len(small.ops) if small is not None else len(r.get('ops', []))} :: {v['detail'][:300]}")

    coverage = {
        "evaluations": evaluations,
        "distinct_nontrivial": len(nontrivial_hashes),
        "rule": "one evaluation = one seeded simulated run (swarm configuration + generated operation/fault sequence, "
        "executed against the real EasyFEA with the reference model in lock-step). Counted as non-trivial when the run "
        "applied >= 3 state-changing operations and made >= 1 oracle comparison; distinct by SHA-1 of (configuration, operation list).",
        "samples": samples or [{"note": "no non-trivial run in this batch"}],
        "runs_by_status": dict(status),
        "runs_per_hour": round(evaluations / max(wall, 1e-9) * 3600),
        "ops_executed": ops_total,
        "oracle_comparisons": checks_total,
        "simulated_virtual_seconds": round(vtime, 3),
        "simulated_physical_time": phys,
        "fault_kinds_fired": dict(faults_fired),
        "fault_runs": sum(1 for r in results if r["faults"]),
        "probes": dict(probes),
        "distinct_abstract_states": len(states),
        "distinct_op_bigrams": len(bigrams),
        "distinct_reached": {k: len(v) for k, v in sorted(reached.items())},
        "discards": dict(discards),
        "known_findings_hit": dict(known_hits),
        "real_vs_stub": REAL_STUB,
        "seeds": {"base": base_seed, "first": base_seed * 1_000_003, "count": evaluations, "rule": "VERIF_SEED*1000003+i; fault batch offset 500000"},
        "tasks_planned": len(tasks),
        "tasks_submitted": submitted,
        "workers": workers,
        "repo_head": sut.repo_head(),
        "harness_errors": len(harness_errors),
        "regression_replays": n_regress,
    }
    ev = {
        "property_id": prop,
        "tier": tier,
        "seed": base_seed,
        "level": "exploration",
        "coverage": coverage,
        "assumptions": list(getattr(wc, "ASSUMPTIONS", [])),
        "wall_s": round(wall, 2),
        "violations": len(new_violations) + len(regress_bad),
    }
    if not os.environ.get("SIMKIT_NO_EVIDENCE"):  # (sensitivity runs against mutated trees must not leave evidence)
        os.makedirs(os.path.join(VERIF, "evidence"), exist_ok=True)
        with open(os.path.join(VERIF, "evidence", f"{prop}.json"), "w") as f:
            json.dump(ev, f, indent=1, default=_json_default)

    print(
        f"[{prop}/{engine}/{tier}] runs={evaluations} ok={status.get('ok', 0)} discard={status.get('discard', 0)} "
        f"violations={len(vio)} (new={len(new_violations)}) harness={len(harness_errors)} nontrivial={len(nontrivial_hashes)} "
        f"ops={ops_total} checks={checks_total} faults={dict(faults_fired)} wall={wall:.1f}s"
    )
    if evaluations and status.get("discard", 0) > 0.1 * evaluations:
        # not a verdict, but never silent: an oracle that cannot observe what it needs (a renamed private attribute, a
        # guard of the harness itself that misfires) shows up here first
        top = sorted(coverage.get("discards", {}).items(), key=lambda kv: -kv[1])[:3]
        print(f"NOTE: {status['discard']} of {evaluations} runs ended without a verdict: " + "; ".join(f"{k} ({v})" for k, v in top))
    if harness_errors:
        for h in harness_errors[:5]:
            print("HARNESS-ERROR:", h[:3000], file=sys.stderr)
        return 2
    if new_violations or regress_bad:
        return 1
    if evaluations == 0:
        print("HARNESS-ERROR: no run completed", file=sys.stderr)
        return 2
    return 0


def _json_default(o):
    import numpy as np

    if isinstance(o, np.ndarray):
        return o.tolist()
    if isinstance(o, (np.integer,)):
        return int(o)
    if isinstance(o, (np.floating,)):
        return float(o)
    if isinstance(o, (np.bool_,)):
        return bool(o)
    return str(o)
