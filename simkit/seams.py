"""Seams owned by the simulator: file system, linear back ends, clocks.

All of them are installed by module-attribute injection (no hook in /repo):
  * `open` looked up through the globals of EasyFEA.Simulations._simu and EasyFEA.FEM._mesh
  * the names `sla` / `optimize` inside EasyFEA.Simulations.Solvers
  * `Tic._Tic__get_time`, `_simu.datetime`
"""

import builtins
import errno
import os
import shutil
import tempfile

from .kernel import InjectedFault


class ProcessKilled(BaseException):
    """The simulated process died at this seam call.  BaseException: no `except Exception` in the
    system under test may swallow a kill."""


class InjectedIOError(OSError, InjectedFault):
    pass


class InjectedMemoryError(MemoryError, InjectedFault):
    pass


class InjectedSingular(RuntimeError, InjectedFault):
    pass


# ----------------------------------------------------------------------------
# file system
# ----------------------------------------------------------------------------
class _SimFile:
    """File object handed to EasyFEA.  Unbuffered underneath: every byte accepted by write() is on the
    simulated disk, so a process kill loses exactly what had not been written yet."""

    def __init__(self, disk, path, mode, encoding=None):
        self.disk = disk
        self.path = path
        self.mode = mode
        self.encoding = encoding or "utf8"
        self.binary = "b" in mode
        self.closed = False
        self._faulted = False
        self._dead = disk.dead
        if self._dead:
            self._f = None
            return
        raw_mode = mode.replace("b", "").replace("t", "") + "b"
        self._f = builtins.open(path, raw_mode, buffering=0)

    # -- writing
    def write(self, data):
        if self._dead or self.disk.dead:
            return len(data)
        if not self.binary and isinstance(data, str):
            data = data.encode(self.encoding)
        data = bytes(data)
        kind = self.disk.tick("write", self.path)
        if kind is not None:
            self._faulted = True
        if kind == "enospc_write":
            self._f.write(data[: len(data) // 2])
            raise InjectedIOError(errno.ENOSPC, "No space left on device (injected)", self.path)
        if kind == "eio_write":
            raise InjectedIOError(errno.EIO, "Input/output error (injected)", self.path)
        if kind == "kill":
            self.disk.kill()
            raise ProcessKilled(f"killed before write to {self.path}")
        if kind == "kill_torn":
            self._f.write(data[: max(1, len(data) // 2)])
            self.disk.kill()
            raise ProcessKilled(f"killed inside write to {self.path}")
        self._f.write(data)
        self.disk.bytes_written += len(data)
        return len(data)

    # -- reading
    def _pre_read(self):
        self.disk.op_reads.add(self.disk.rel(self.path))
        kind = self.disk.tick("read", self.path)
        if kind == "eio_read":
            raise InjectedIOError(errno.EIO, "Input/output error (injected)", self.path)
        if kind == "kill":
            self.disk.kill()
            raise ProcessKilled(f"killed before read of {self.path}")

    def read(self, n=-1):
        self._pre_read()
        data = self._f.read() if n is None or n < 0 else self._f.read(n)
        data = data or b""
        return data if self.binary else data.decode(self.encoding)

    def readinto(self, b):
        self._pre_read()
        return self._f.readinto(b)

    def readline(self, n=-1):
        self._pre_read()
        # unbuffered readline: byte by byte is fine for pickles (rarely used by protocol >= 2)
        out = bytearray()
        while True:
            c = self._f.read(1)
            if not c:
                break
            out += c
            if c == b"\n" or (n is not None and 0 <= n <= len(out)):
                break
        return bytes(out) if self.binary else bytes(out).decode(self.encoding)

    def flush(self):
        pass

    def close(self):
        if self.closed:
            return
        self.closed = True
        if self._f is not None:
            if not self.disk.dead:
                kind = self.disk.tick("close", self.path)
                if kind == "kill":
                    self.disk.kill()
                    self._f.close()
                    raise ProcessKilled(f"killed at close of {self.path}")
                if self.writable() and not self._faulted:
                    self.disk.tainted.discard(self.disk.rel(self.path))
            self._f.close()

    def __enter__(self):
        return self

    def __exit__(self, *exc):
        self.close()
        return False

    def readable(self):
        return "r" in self.mode

    def writable(self):
        return "w" in self.mode or "a" in self.mode

    def seekable(self):
        return False


class SimDisk:
    """Real bytes in a per-run scratch directory behind a counting, fault-injecting wrapper."""

    FAULT_KINDS = ("eio_open", "eacces_open", "enospc_write", "eio_write", "eio_read", "kill", "kill_torn")

    def __init__(self, ctx):
        self.ctx = ctx
        base = "/dev/shm" if os.path.isdir("/dev/shm") and os.access("/dev/shm", os.W_OK) else None
        self.root = tempfile.mkdtemp(prefix="simdisk_", dir=base)
        self.calls = 0
        self.dead = False
        self.bytes_written = 0
        self._armed = None  # dict(kind, k, base)
        self._mods = []
        self.history = []
        self.tainted = set()  # files whose (over)write was interrupted by an injected fault
        self.op_reads = set()  # files read during the current operation

    def begin_op(self):
        self.op_reads = set()

    def rel(self, path):
        return os.path.relpath(path, self.root)

    # seam installation --------------------------------------------------
    def install(self, *modules):
        for m in modules:
            m.open = self.open
            self._mods.append(m)

    def uninstall(self):
        for m in self._mods:
            if "open" in m.__dict__:
                del m.open
        self._mods = []

    def close(self):
        self.uninstall()
        shutil.rmtree(self.root, ignore_errors=True)

    def path(self, *parts) -> str:
        return os.path.join(self.root, *parts)

    # fault control ------------------------------------------------------
    def arm(self, fault: dict):
        """fault = {"seam": "disk", "kind": ..., "k": n}: the n-th seam call from now misbehaves."""
        self._armed = {"kind": fault["kind"], "k": int(fault["k"]), "base": self.calls}

    def disarm(self) -> bool:
        """Returns True if the armed fault was still pending (never reached)."""
        pending = self._armed is not None
        self._armed = None
        return pending

    def kill(self):
        self.dead = True

    def revive(self):
        """Restart of the simulated process: the disk lives on, armed faults and the dead flag go."""
        self.dead = False
        self._armed = None

    def tick(self, what: str, path: str):
        """Counts one seam call; returns the fault kind that applies to it (or None)."""
        self.calls += 1
        a = self._armed
        if a is None:
            return None
        if self.calls - a["base"] < a["k"]:
            return None
        kind = a["kind"]
        applicable = {
            "open": ("eio_open", "eacces_open", "kill"),
            "write": ("enospc_write", "eio_write", "kill", "kill_torn"),
            "read": ("eio_read", "kill"),
            "close": ("kill",),
        }[what]
        if kind not in applicable:
            return None  # wait for the next call of a matching kind
        self._armed = None
        self.ctx.fired("disk:" + kind)
        self.history.append((self.calls, what, kind, os.path.relpath(path, self.root)))
        if what in ("write", "close") or (what == "open" and getattr(self, "_opening_w", False)):
            self.tainted.add(self.rel(path))
        return kind

    # the seam itself ------------------------------------------------------
    def open(self, path, mode="r", *args, **kwargs):
        path = os.fspath(path)
        if self.dead:
            return _SimFile(self, path, mode, kwargs.get("encoding"))
        if not os.path.abspath(path).startswith(self.root):
            # anything outside the simulated disk (never the case for the engines) goes through
            return builtins.open(path, mode, *args, **kwargs)
        self._opening_w = any(c in mode for c in "wa+")
        kind = self.tick("open", path)
        if kind == "eio_open":
            raise InjectedIOError(errno.EIO, "Input/output error (injected)", path)
        if kind == "eacces_open":
            raise InjectedIOError(errno.EACCES, "Permission denied (injected)", path)
        if kind == "kill":
            self.kill()
            raise ProcessKilled(f"killed before open of {path}")
        return _SimFile(self, path, mode, kwargs.get("encoding"))

    def listing(self) -> dict:
        """{relative path: size} of everything on the simulated disk (sorted)."""
        out = {}
        for d, _, files in sorted(os.walk(self.root)):
            for f in sorted(files):
                p = os.path.join(d, f)
                out[os.path.relpath(p, self.root)] = os.path.getsize(p)
        return out


# ----------------------------------------------------------------------------
# linear back ends
# ----------------------------------------------------------------------------
class _BackendProxy:
    def __init__(self, real, seam, names):
        self.__dict__["_real"] = real
        self.__dict__["_seam"] = seam
        self.__dict__["_names"] = names

    def __getattr__(self, name):
        attr = getattr(self._real, name)
        if name in self._names:
            seam = self._seam

            def call(*a, **k):
                seam.tick(name)
                return attr(*a, **k)

            return call
        return attr


class SolverSeam:
    """Counting proxies around scipy.sparse.linalg / scipy.optimize inside EasyFEA.Simulations.Solvers.
    Nothing is faked about the numerical result; the k-th back-end call can be made to raise."""

    NAMES = ("spsolve", "cg", "bicg", "gmres", "lgmres", "lsq_linear")
    FAULT_KINDS = ("memerr", "singular")

    def __init__(self, ctx, solvers_module):
        self.ctx = ctx
        self.mod = solvers_module
        self.calls = 0
        self.per_backend = {}
        self._armed = None
        self._real_sla = solvers_module.sla
        self._real_opt = solvers_module.optimize
        while isinstance(self._real_sla, _BackendProxy):  # a previous run did not clean up
            self._real_sla = self._real_sla._real
        while isinstance(self._real_opt, _BackendProxy):
            self._real_opt = self._real_opt._real
        solvers_module.sla = _BackendProxy(self._real_sla, self, self.NAMES)
        solvers_module.optimize = _BackendProxy(self._real_opt, self, self.NAMES)

    def close(self):
        self.mod.sla = self._real_sla
        self.mod.optimize = self._real_opt

    def arm(self, fault: dict):
        self._armed = {"kind": fault["kind"], "k": int(fault["k"]), "base": self.calls}

    def disarm(self) -> bool:
        pending = self._armed is not None
        self._armed = None
        return pending

    def tick(self, name: str):
        self.calls += 1
        self.per_backend[name] = self.per_backend.get(name, 0) + 1
        a = self._armed
        if a is None or self.calls - a["base"] < a["k"]:
            return
        self._armed = None
        self.ctx.fired("solver:" + a["kind"])
        if a["kind"] == "memerr":
            raise InjectedMemoryError("injected allocation failure in linear back end")
        raise InjectedSingular("Factor is exactly singular (injected)")


class AllocSeam:
    """Counting proxy around `scipy.sparse` inside EasyFEA.Simulations._simu: the k-th construction of a sparse
    matrix (csr_matrix / diags) during an operation can be made to fail with MemoryError -- the failing allocation
    of a real run -- so that an assembly is interrupted after some of its slots were built and caches were filled."""

    NAMES = ("csr_matrix", "diags")

    def __init__(self, ctx, simu_module):
        self.ctx = ctx
        self.mod = simu_module
        self.calls = 0
        self.per_backend = {}
        self._armed = None
        self._real = simu_module.sparse
        while isinstance(self._real, _BackendProxy):
            self._real = self._real._real
        simu_module.sparse = _BackendProxy(self._real, self, self.NAMES)

    def close(self):
        self.mod.sparse = self._real

    def arm(self, fault: dict):
        self._armed = {"k": int(fault["k"]), "base": self.calls}

    def disarm(self) -> bool:
        pending = self._armed is not None
        self._armed = None
        return pending

    def tick(self, name: str):
        self.calls += 1
        a = self._armed
        if a is None or self.calls - a["base"] < a["k"]:
            return
        self._armed = None
        self.ctx.fired("alloc:memerr")
        raise InjectedMemoryError("injected allocation failure while building a sparse matrix")


# ----------------------------------------------------------------------------
# clocks
# ----------------------------------------------------------------------------
class ClockSeam:
    """Tic, and datetime.now() in Save(), read the run's virtual clock."""

    def __init__(self, ctx, easyfea):
        import datetime as _dt

        from EasyFEA.Utilities import _tic
        from EasyFEA.Simulations import _simu

        self._tic_cls = _tic.Tic
        self._simu_mod = _simu
        self._old_get = _tic.Tic.__dict__.get("_Tic__get_time")
        self._old_dt = _simu.datetime
        self._hist = _tic.Tic.__dict__.get("_Tic__History")
        _tic.Tic._Tic__get_time = staticmethod(ctx.now)
        _tic.Tic._Tic__History = {}

        epoch = _dt.datetime(2026, 1, 1)

        class _FakeDatetime:
            @staticmethod
            def now():
                return epoch + _dt.timedelta(seconds=ctx.now())

        _simu.datetime = _FakeDatetime

    def close(self):
        self._tic_cls._Tic__get_time = self._old_get
        self._tic_cls._Tic__History = {}
        self._simu_mod.datetime = self._old_dt
