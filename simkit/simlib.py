"""Declarative records of models / simulations and builders of brand-new EasyFEA objects from them.

`Fresh` objects are always built from raw arrays and constructor arguments -- never by deepcopy,
which would copy caches and flags along.
"""

import numpy as np

from .kernel import arr_rng


# ----------------------------------------------------------------------------
# models
# ----------------------------------------------------------------------------
def _models():
    from EasyFEA import Models

    return Models


def make_model(kind: str, p: dict):
    M = _models()
    if kind == "iso":
        return M.Elastic.Isotropic(p["dim"], E=p["E"], v=p["v"], planeStress=p["planeStress"], thickness=p["thickness"])
    if kind == "thermal":
        return M.Thermal(p["k"], p["c"], p["thickness"])
    raise KeyError(kind)


def gen_model_params(kind: str, rng, dim: int) -> dict:
    if kind == "iso":
        return {
            "dim": dim,
            "E": float(np.round(10 ** rng.uniform(0, 3), 4)),
            "v": float(np.round(rng.uniform(-0.2, 0.4), 3)),
            "planeStress": bool(rng.integers(2)),
            "thickness": float(np.round(rng.uniform(0.5, 2.0), 3)),
        }
    if kind == "thermal":
        return {
            "k": float(np.round(10 ** rng.uniform(-1, 1), 4)),
            "c": float(np.round(rng.uniform(0.5, 3.0), 3)),
            "thickness": float(np.round(rng.uniform(0.5, 2.0), 3)),
        }
    raise KeyError(kind)


def gen_param_write(kind: str, rng) -> tuple:
    """(name, value) of one admissible parameter write."""
    if kind == "iso":
        name = ["E", "v", "planeStress", "thickness"][int(rng.integers(4))]
        if name == "E":
            return name, float(np.round(10 ** rng.uniform(0, 3), 4))
        if name == "v":
            return name, float(np.round(rng.uniform(-0.2, 0.4), 3))
        if name == "planeStress":
            return name, bool(rng.integers(2))
        return name, float(np.round(rng.uniform(0.5, 2.0), 3))
    if kind == "thermal":
        name = ["k", "c", "thickness"][int(rng.integers(3))]
        if name == "k":
            return name, float(np.round(10 ** rng.uniform(-1, 1), 4))
        if name == "c":
            return name, float(np.round(rng.uniform(0.5, 3.0), 3))
        return name, float(np.round(rng.uniform(0.5, 2.0), 3))
    raise KeyError(kind)


# ----------------------------------------------------------------------------
# simulations
# ----------------------------------------------------------------------------
SIM_MODEL = {"Elastic": "iso", "Thermal": "thermal"}


def make_sim(simtype: str, mesh, model, folder: str = ""):
    from EasyFEA import Simulations

    if simtype == "Elastic":
        return Simulations.Elastic(mesh, model, folder=folder)
    if simtype == "Thermal":
        return Simulations.Thermal(mesh, model, folder=folder)
    raise KeyError(simtype)


def sim_algos(simtype: str) -> list:
    if simtype == "Elastic":
        return ["elliptic", "newmark", "midpoint", "hht", "hht_newmark", "euler_implicit", "euler_explicit"]
    if simtype == "Thermal":
        return ["elliptic", "parabolic"]
    return ["elliptic"]


def gen_algo(simtype: str, rng) -> dict:
    algos = sim_algos(simtype)
    a = algos[int(rng.integers(len(algos)))]
    spec = {"algo": a}
    if a == "elliptic":
        return spec
    spec["dt"] = float(np.round(10 ** rng.uniform(-3, 0), 5))
    if a == "parabolic":
        spec["alpha"] = float(np.round(rng.uniform(0.3, 1.0), 3))
    elif a in ("newmark", "hht"):
        spec["beta"] = float(np.round(rng.uniform(0.2, 0.5), 3))
        spec["gamma"] = float(np.round(rng.uniform(0.5, 0.9), 3))
        spec["alpha"] = float(np.round(rng.uniform(0.0, 0.5), 3)) if a == "hht" else 0.5
    elif a == "hht_newmark":
        spec["alpha"] = float(np.round(rng.uniform(0.0, 1 / 3), 3))
    return spec


def apply_algo(sim, spec: dict) -> None:
    from EasyFEA import AlgoType

    a = spec["algo"]
    if a == "elliptic":
        sim.Solver_Set_Elliptic_Algorithm()
    elif a == "parabolic":
        sim.Solver_Set_Parabolic_Algorithm(spec["dt"], spec["alpha"])
    else:
        kw = {}
        for k in ("beta", "gamma", "alpha"):
            if k in spec:
                kw[k] = spec[k]
        sim.Solver_Set_Hyperbolic_Algorithm(spec["dt"], algo=AlgoType(a), **kw)


def problem_types(sim) -> list:
    return list(sim.Get_problemTypes())


def get_state(sim) -> dict:
    """Kinematic state per problem type (copies)."""
    st = {}
    for pt in sim.Get_problemTypes():
        st[str(pt)] = (sim._Get_u_n(pt), sim._Get_v_n(pt), sim._Get_a_n(pt))
    return st


def set_state(sim, st: dict) -> None:
    for pt in sim.Get_problemTypes():
        u, v, a = st[str(pt)]
        sim._Set_solutions(pt, u.copy(), v.copy(), a.copy())


def sim_results(simtype: str, dim: int) -> list:
    if simtype == "Elastic":
        r = ["displacement", "displacement_norm", "ux", "uy", "Svm", "Stress", "Strain", "Wdef", "Wdef_e", "Sxx", "Exy", "Evm"]
        if dim == 3:
            r += ["uz", "Szz"]
        return r
    if simtype == "Thermal":
        return ["thermal", "thermalDot"]
    return []


def unknown_sets(simtype: str, dim: int) -> list:
    """Subsets of unknowns a Dirichlet / Neumann op may address."""
    if simtype == "Elastic":
        if dim == 2:
            return [["x", "y"], ["x"], ["y"], ["y", "x"]]
        return [["x", "y", "z"], ["x"], ["z", "y"], ["y"]]
    if simtype == "Thermal":
        return [["t"]]
    return []


def all_unknowns(simtype: str, dim: int) -> list:
    return unknown_sets(simtype, dim)[0]


def boundary_tags(raw) -> list:
    """Tags of the boundary entities of the main dimension - 1 (edges in 2D, faces in 3D)."""
    main_et = raw.main[0][0]
    if main_et.startswith(("HEXA", "TETRA", "PRISM")):
        pref = "S"
    elif main_et.startswith(("TRI", "QUAD")):
        pref = "L"
    else:
        pref = "P"
    tags = set()
    for et, t in raw.tags.items():
        for name in t:
            if name.startswith(pref) and name[1:].isdigit():
                tags.add(name)
    return sorted(tags, key=lambda s: int(s[1:]))


def values_for(spec, n_nodes: int, n_unknowns: int) -> list:
    """BC values from their JSON spec: {"const": [..]} or {"aseed": k, "scale": s} (one array per unknown)."""
    if "const" in spec:
        c = list(spec["const"])
        return [float(c[i % len(c)]) for i in range(n_unknowns)]
    rng = arr_rng(spec["aseed"], 7)
    s = spec.get("scale", 1.0)
    return [np.round(rng.uniform(-1, 1, n_nodes) * s, 6) for _ in range(n_unknowns)]
