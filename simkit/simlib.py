"""Declarative records of models / simulations and builders of brand-new EasyFEA objects from them.

`Fresh` objects are always built from raw arrays and constructor arguments -- never by deepcopy,
which would copy caches and flags along.
"""

import numpy as np

from .kernel import arr_rng


# ----------------------------------------------------------------------------
# models
# ----------------------------------------------------------------------------
def _models():
    from EasyFEA import Models

    return Models


def make_model(kind: str, p: dict):
    M = _models()
    if kind == "iso":
        return M.Elastic.Isotropic(p["dim"], E=p["E"], v=p["v"], planeStress=p["planeStress"], thickness=p["thickness"])
    if kind == "thermal":
        return M.Thermal(p["k"], p["c"], p["thickness"])
    if kind == "pf":
        mat = M.Elastic.Isotropic(p["dim"], E=p["E"], v=p["v"], planeStress=p["planeStress"], thickness=p["thickness"])
        pfm = M.PhaseField(mat, p["split"], p["regularization"], Gc=p["Gc"], l0=p["l0"], solver=p["solver"])
        if p.get("A") is not None:
            pfm.A = np.array(p["A"], dtype=float)
        return pfm
    if kind == "neohook":
        m = M.HyperElastic.NeoHookean(p["dim"], K=p["K"], thickness=p["thickness"])
        m.eta = p.get("eta", 0.0)
        return m
    if kind == "svk":
        m = M.HyperElastic.SaintVenantKirchhoff(p["dim"], lmbda=p["lmbda"], mu=p["mu"], thickness=p["thickness"])
        m.eta = p.get("eta", 0.0)
        return m
    if kind == "behavior":
        el = M.Elastic.Isotropic(3, E=p["E"], v=p["v"])
        ys = M.InElastic.Yield.VonMises(p["sigma_y"]) if p.get("sigma_y") else None
        hd = M.InElastic.IsotropicHardening.Linear(p["H"]) if p.get("sigma_y") else None
        return M.InElastic.Behavior(p["dim"], el, yieldSurface=ys, hardening=hd, thickness=p["thickness"], planeStress=p["planeStress"])
    if kind in ("wf_scalar", "wf_vector"):
        raise KeyError("weak-form models are bound to a mesh: use make_weakforms(mesh, params)")
    raise KeyError(kind)


# weak forms: module-level functions so that a saved simulation can be unpickled
def _wf_k_scalar(u, v):
    return u.grad.dot(v.grad)


def _wf_m_scalar(u, v):
    return u * v if False else u.dot(v)


def _wf_k_vector(u, v):
    from EasyFEA.FEM import Sym_Grad, Trace
    import numpy as _np

    Eps = Sym_Grad(u)
    d = Eps.shape[-1]
    Sig = 2 * 1.0 * Eps + 0.5 * Trace(Eps) * _np.eye(d)
    return Sig.ddot(Sym_Grad(v))


def _wf_m_vector(u, v):
    return u.dot(v)


# SUPG advection-diffusion: neither K nor the rate matrix is symmetric (module-level, as above)
_WF_A = np.array([1.0, 0.5])
_WF_TAU = 0.1


def _wf_adv(w):
    return w.grad.dot(_WF_A)


def _wf_val(w):
    return w.dot(np.ones(1))


def _wf_k_supg(u, v):
    return 0.05 * u.grad.dot(v.grad) + _wf_adv(u) * (_wf_val(v) + _WF_TAU * _wf_adv(v))


def _wf_m_supg(u, v):
    return _wf_val(u) * (_wf_val(v) + _WF_TAU * _wf_adv(v))


def make_weakforms(mesh, p: dict):
    """Weak-form model on the main group of `mesh` (the Field is bound to that group by construction)."""
    M = _models()
    from EasyFEA.FEM import Field, BiLinearForm

    dof_n = p["dof_n"]
    field = Field(mesh.groupElem, dof_n)
    if dof_n == 1 and p.get("supg"):
        K, Mm = BiLinearForm(_wf_k_supg), BiLinearForm(_wf_m_supg)
    elif dof_n == 1:
        K, Mm = BiLinearForm(_wf_k_scalar), BiLinearForm(_wf_m_scalar)
    else:
        K, Mm = BiLinearForm(_wf_k_vector), BiLinearForm(_wf_m_vector)
    return M.WeakForms(field, K, computeC=Mm, computeM=Mm, thickness=p["thickness"])


def gen_model_params(kind: str, rng, dim: int) -> dict:
    if kind == "iso":
        return {
            "dim": dim,
            "E": float(np.round(10 ** rng.uniform(0, 3), 4)),
            "v": float(np.round(rng.uniform(-0.2, 0.4), 3)),
            "planeStress": bool(rng.integers(2)),
            "thickness": float(np.round(rng.uniform(0.5, 2.0), 3)),
        }
    if kind == "thermal":
        return {
            "k": float(np.round(10 ** rng.uniform(-1, 1), 4)),
            "c": float(np.round(rng.uniform(0.5, 3.0), 3)),
            "thickness": float(np.round(rng.uniform(0.5, 2.0), 3)),
        }
    if kind == "pf":
        return {
            "dim": dim,
            "E": float(np.round(10 ** rng.uniform(1, 3), 4)),
            "v": float(np.round(rng.uniform(0.0, 0.35), 3)),
            "planeStress": bool(rng.integers(2)),
            "thickness": float(np.round(rng.uniform(0.5, 2.0), 3)),
            "split": PF_SPLITS_ISO[int(rng.integers(len(PF_SPLITS_ISO)))],
            "regularization": ["AT1", "AT2"][int(rng.integers(2))],
            "Gc": float(np.round(10 ** rng.uniform(-2, 0), 5)),
            "l0": float(np.round(rng.uniform(0.1, 0.4), 3)),
            "solver": ["History", "HistoryDamage", "BoundConstrain"][int(rng.integers(3))],
            "A": None,
        }
    if kind == "neohook":
        return {"dim": dim, "K": float(np.round(10 ** rng.uniform(1, 3), 3)), "thickness": float(np.round(rng.uniform(0.5, 2.0), 3)), "eta": 0.0}
    if kind == "svk":
        return {"dim": dim, "lmbda": float(np.round(10 ** rng.uniform(1, 2), 3)), "mu": float(np.round(10 ** rng.uniform(1, 2), 3)), "thickness": float(np.round(rng.uniform(0.5, 2.0), 3)), "eta": 0.0}
    if kind == "behavior":
        return {
            "dim": dim, "E": float(np.round(10 ** rng.uniform(2, 3), 3)), "v": float(np.round(rng.uniform(0.1, 0.35), 3)),
            "sigma_y": float(np.round(rng.uniform(0.5, 3.0), 3)) if rng.random() < 0.8 else None,
            "H": float(np.round(rng.uniform(5, 100), 2)),
            "thickness": float(np.round(rng.uniform(0.5, 2.0), 3)),
            "planeStress": bool(rng.integers(2)) if dim == 2 else False,
        }
    if kind in ("wf_scalar", "wf_vector"):
        return {"dof_n": 1 if kind == "wf_scalar" else dim, "thickness": float(np.round(rng.uniform(0.5, 2.0), 3))}
    raise KeyError(kind)


PF_SPLITS_ISO = ["Bourdin", "Amor", "Miehe", "He", "Stress", "Zhang", "AnisotStrain", "AnisotStrain_PM", "AnisotStrain_MP",
                 "AnisotStrain_NoCross", "AnisotStress", "AnisotStress_PM", "AnisotStress_MP", "AnisotStress_NoCross"]


def gen_param_write(kind: str, rng) -> tuple:
    """(name, value) of one admissible parameter write."""
    if kind == "iso":
        name = ["E", "v", "planeStress", "thickness"][int(rng.integers(4))]
        if name == "E":
            return name, float(np.round(10 ** rng.uniform(0, 3), 4))
        if name == "v":
            return name, float(np.round(rng.uniform(-0.2, 0.4), 3))
        if name == "planeStress":
            return name, bool(rng.integers(2))
        return name, float(np.round(rng.uniform(0.5, 2.0), 3))
    if kind == "thermal":
        name = ["k", "c", "thickness"][int(rng.integers(3))]
        if name == "k":
            return name, float(np.round(10 ** rng.uniform(-1, 1), 4))
        if name == "c":
            return name, float(np.round(rng.uniform(0.5, 3.0), 3))
        return name, float(np.round(rng.uniform(0.5, 2.0), 3))
    if kind == "pf":
        name = ["Gc", "l0", "regularization", "split", "mat.E", "mat.v", "mat.thickness", "solver", "A"][int(rng.integers(9))]
        if name == "solver":
            return name, ["History", "HistoryDamage", "BoundConstrain"][int(rng.integers(3))]
        if name == "A":
            # structural tensor of the crack density (symmetric positive definite, in-plane rotation of diag(1, a))
            a, th = float(np.round(rng.uniform(1.0, 6.0), 3)), float(np.round(rng.uniform(0, np.pi), 3))
            R = np.array([[np.cos(th), -np.sin(th)], [np.sin(th), np.cos(th)]])
            A2 = np.round(R @ np.diag([1.0, a]) @ R.T, 8)
            return name, A2.tolist()
        if name == "Gc":
            return name, float(np.round(10 ** rng.uniform(-2, 0), 5))
        if name == "l0":
            return name, float(np.round(rng.uniform(0.1, 0.4), 3))
        if name == "regularization":
            return name, ["AT1", "AT2"][int(rng.integers(2))]
        if name == "split":
            return name, PF_SPLITS_ISO[int(rng.integers(len(PF_SPLITS_ISO)))]
        if name == "mat.E":
            return name, float(np.round(10 ** rng.uniform(1, 3), 4))
        if name == "mat.v":
            return name, float(np.round(rng.uniform(0.0, 0.35), 3))
        return name, float(np.round(rng.uniform(0.5, 2.0), 3))
    if kind == "neohook":
        name = ["K", "thickness", "eta"][int(rng.integers(3))]
        if name == "eta":
            return name, float(np.round(rng.uniform(0.0, 1.0), 3))
        return (name, float(np.round(10 ** rng.uniform(1, 3), 3))) if name == "K" else (name, float(np.round(rng.uniform(0.5, 2.0), 3)))
    if kind == "svk":
        name = ["lmbda", "mu", "thickness", "eta"][int(rng.integers(4))]
        if name == "eta":
            return name, float(np.round(rng.uniform(0.0, 1.0), 3))
        if name == "thickness":
            return name, float(np.round(rng.uniform(0.5, 2.0), 3))
        return name, float(np.round(10 ** rng.uniform(1, 2), 3))
    if kind == "behavior":
        name = ["thickness", "planeStress", "el.E", "el.v"][int(rng.integers(4))]
        if name == "el.E":
            # the elastic law the behaviour was built with is an object of its own, with public parameters
            return name, float(np.round(10 ** rng.uniform(2, 3), 3))
        if name == "el.v":
            return name, float(np.round(rng.uniform(0.1, 0.35), 3))
        return (name, float(np.round(rng.uniform(0.5, 2.0), 3))) if name == "thickness" else (name, bool(rng.integers(2)))
    if kind in ("wf_scalar", "wf_vector"):
        return "thickness", float(np.round(rng.uniform(0.5, 2.0), 3))
    raise KeyError(kind)


def write_param(model, kind: str, params: dict, name: str, val) -> None:
    """Applies one parameter write to the live model and to the record."""
    if kind == "pf" and name.startswith("mat."):
        setattr(model.material, name[4:], val)
        params[name[4:]] = val
    elif kind == "behavior" and name.startswith("el."):
        setattr(model.elastic, name[3:], val)
        params[name[3:]] = val
    elif kind == "pf" and name == "A":
        dim = model.dim
        A = np.eye(dim)
        A[:2, :2] = np.array(val, dtype=float)
        model.A = A
        params[name] = A.tolist()
    else:
        setattr(model, name, val)
        params[name] = val


# ----------------------------------------------------------------------------
# simulations
# ----------------------------------------------------------------------------
SIM_MODEL = {"Elastic": ["iso"], "Thermal": ["thermal"], "PhaseField": ["pf"], "HyperElastic": ["neohook", "svk"],
             "InElastic": ["behavior"], "WeakForms": ["wf_scalar", "wf_vector"]}


def make_sim(simtype: str, mesh, model, folder: str = ""):
    from EasyFEA import Simulations

    if simtype == "Elastic":
        return Simulations.Elastic(mesh, model, folder=folder)
    if simtype == "Thermal":
        return Simulations.Thermal(mesh, model, folder=folder)
    if simtype == "PhaseField":
        return Simulations.PhaseField(mesh, model, folder=folder)
    if simtype == "HyperElastic":
        return Simulations.HyperElastic(mesh, model, folder=folder)
    if simtype == "InElastic":
        return Simulations.InElastic(mesh, model, folder=folder)
    if simtype == "WeakForms":
        return Simulations.WeakForms(mesh, model, folder=folder)
    raise KeyError(simtype)


def sim_algos(simtype: str) -> list:
    if simtype == "Elastic":
        return ["elliptic", "newmark", "midpoint", "hht", "hht_newmark", "euler_implicit", "euler_explicit"]
    if simtype == "Thermal":
        return ["elliptic", "parabolic"]
    if simtype == "HyperElastic":
        return ["elliptic", "newmark", "midpoint", "hht", "euler_implicit"]
    if simtype == "WeakForms":
        return ["elliptic", "parabolic", "newmark", "midpoint", "euler_implicit"]
    if simtype == "Beam":
        return ["elliptic", "newmark", "midpoint", "hht", "euler_implicit"]
    return ["elliptic"]


def gen_algo(simtype: str, rng) -> dict:
    algos = sim_algos(simtype)
    a = algos[int(rng.integers(len(algos)))]
    spec = {"algo": a}
    if a == "elliptic":
        return spec
    spec["dt"] = float(np.round(10 ** rng.uniform(-3, 0), 5))
    if a == "parabolic":
        spec["alpha"] = float(np.round(rng.uniform(0.3, 1.0), 3))
    elif a in ("newmark", "hht"):
        spec["beta"] = float(np.round(rng.uniform(0.2, 0.5), 3))
        spec["gamma"] = float(np.round(rng.uniform(0.5, 0.9), 3))
        spec["alpha"] = float(np.round(rng.uniform(0.0, 0.5), 3)) if a == "hht" else 0.5
    elif a == "hht_newmark":
        spec["alpha"] = float(np.round(rng.uniform(0.0, 1 / 3), 3))
    if a in ("midpoint", "euler_implicit", "euler_explicit", "newmark", "hht_newmark") and rng.random() < 0.3:
        # parameters the scheme does not have (a kwargs dict shared by a loop over schemes): accepted, and documented
        # as belonging to newmark / hht only -- they must not leak into this scheme
        if a != "newmark":
            spec["beta"] = float(np.round(rng.uniform(0.2, 0.5), 3))
            spec["gamma"] = float(np.round(rng.uniform(0.5, 0.9), 3))
        if a != "hht_newmark":
            spec["alpha"] = float(np.round(rng.uniform(0.0, 0.9), 3))
        spec["stray"] = True
    return spec


def apply_algo(sim, spec: dict) -> None:
    from EasyFEA import AlgoType

    a = spec["algo"]
    if a == "elliptic":
        sim.Solver_Set_Elliptic_Algorithm()
    elif a == "parabolic":
        sim.Solver_Set_Parabolic_Algorithm(spec["dt"], spec["alpha"])
    else:
        kw = {}
        for k in ("beta", "gamma", "alpha"):
            if k in spec:
                kw[k] = spec[k]
        sim.Solver_Set_Hyperbolic_Algorithm(spec["dt"], algo=AlgoType(a), **kw)


def priv(obj, name: str):
    """Value of a name-mangled attribute the property's anchors name as state.  If a refactoring renamed it the run ends
    without a verdict (counted as a discard with this reason): an oracle that cannot see its state must not guess."""
    from .kernel import Discard

    try:
        return getattr(obj, name)
    except AttributeError:
        raise Discard(f"private state attribute {name} not found on {type(obj).__name__} (renamed by a refactoring?): oracle unavailable")


def set_priv(obj, name: str, value) -> None:
    from .kernel import Discard

    if not hasattr(obj, name):
        raise Discard(f"private state attribute {name} not found on {type(obj).__name__} (renamed by a refactoring?): oracle unavailable")
    setattr(obj, name, value)


def problem_types(sim) -> list:
    return list(sim.Get_problemTypes())


def pt_key(pt) -> str:
    return str(getattr(pt, "value", pt))


def get_state(sim) -> dict:
    """Kinematic state per problem type (copies)."""
    st = {}
    for pt in sim.Get_problemTypes():
        st[pt_key(pt)] = (sim._Get_u_n(pt), sim._Get_v_n(pt), sim._Get_a_n(pt))
    return st


def set_state(sim, st: dict) -> None:
    for pt in sim.Get_problemTypes():
        u, v, a = st[pt_key(pt)]
        sim._Set_solutions(pt, u.copy(), v.copy(), a.copy())


def sim_results(simtype: str, dim: int) -> list:
    if simtype == "Elastic":
        r = ["displacement", "displacement_norm", "ux", "uy", "Svm", "Stress", "Strain", "Wdef", "Wdef_e", "Sxx", "Exy", "Evm"]
        if dim == 3:
            r += ["uz", "Szz"]
        return r
    if simtype == "Thermal":
        return ["thermal", "thermalDot"]
    if simtype == "PhaseField":
        return ["displacement", "damage", "ux", "Svm", "Stress", "Strain", "Wdef", "Psi_Crack"]
    if simtype == "HyperElastic":
        return ["displacement", "ux", "uy", "Svm", "Piola-Kirchhoff", "Green-Lagrange", "W", "W_e"]
    if simtype == "InElastic":
        return ["displacement", "ux", "Svm", "Stress", "Strain"]
    if simtype == "WeakForms":
        return ["u", "v", "a"]
    return []


def unknown_sets(simtype: str, dim: int) -> list:
    """Subsets of unknowns a Dirichlet / Neumann op may address."""
    if simtype == "Elastic":
        if dim == 2:
            return [["x", "y"], ["x"], ["y"], ["y", "x"]]
        return [["x", "y", "z"], ["x"], ["z", "y"], ["y"]]
    if simtype == "Thermal":
        return [["t"]]
    if simtype in ("PhaseField", "HyperElastic", "InElastic"):
        return unknown_sets("Elastic", dim)
    if simtype == "WeakForms":
        return [["u"]]
    if simtype == "WeakFormsV":
        return unknown_sets("Elastic", dim)
    return []


def all_unknowns(simtype: str, dim: int) -> list:
    return unknown_sets(simtype, dim)[0]


def boundary_tags(raw) -> list:
    """Tags of the boundary entities of the main dimension - 1 (edges in 2D, faces in 3D)."""
    main_et = raw.main[0][0]
    if main_et.startswith(("HEXA", "TETRA", "PRISM")):
        pref = "S"
    elif main_et.startswith(("TRI", "QUAD")):
        pref = "L"
    else:
        pref = "P"
    tags = set()
    for et, t in raw.tags.items():
        for name in t:
            if name.startswith(pref) and name[1:].isdigit():
                tags.add(name)
    return sorted(tags, key=lambda s: int(s[1:]))


def values_for(spec, n_nodes: int, n_unknowns: int) -> list:
    """BC values from their JSON spec: {"const": [..]} or {"aseed": k, "scale": s} (one array per unknown)."""
    if "const" in spec:
        c = list(spec["const"])
        return [float(c[i % len(c)]) for i in range(n_unknowns)]
    rng = arr_rng(spec["aseed"], 7)
    s = spec.get("scale", 1.0)
    return [np.round(rng.uniform(-1, 1, n_nodes) * s, 6) for _ in range(n_unknowns)]


NONLINEAR = ("HyperElastic", "InElastic")


def get_extra(sim, simtype: str) -> dict:
    """State beyond (u, v, a): committed internal variables / history field (copies)."""
    if simtype == "InElastic":
        return {
            "zOld": {k: np.array(v) for k, v in priv(sim, "_InElastic__zOld").items()},
            "z": {k: np.array(v) for k, v in priv(sim, "_InElastic__z").items()},
            "dt": sim.dt,
        }
    if simtype == "PhaseField":
        # one array for the whole mesh (older trees) or one per element group (a dict keyed by element type)
        def grab(x):
            return {k: np.array(v) for k, v in x.items()} if isinstance(x, dict) else np.array(x)

        return {"H": grab(priv(sim, "_PhaseField__old_psiP_e_pg")), "psiP": grab(priv(sim, "_PhaseField__psiP_e_pg"))}
    return {}


def set_extra(sim, simtype: str, ex: dict) -> None:
    from EasyFEA.FEM import FeArray

    if simtype == "InElastic":
        set_priv(sim, "_InElastic__zOld", {k: FeArray.asfearray(v.copy()) for k, v in ex["zOld"].items()})
        set_priv(sim, "_InElastic__z", {k: FeArray.asfearray(v.copy()) for k, v in ex["z"].items()})
        sim.dt = ex["dt"]
    elif simtype == "PhaseField":
        def put(x):
            if isinstance(x, dict):
                return {k: FeArray.asfearray(v.copy()) for k, v in x.items()}
            x = x.copy()
            return FeArray.asfearray(x) if x.ndim >= 2 else x

        set_priv(sim, "_PhaseField__old_psiP_e_pg", put(ex["H"]))
        set_priv(sim, "_PhaseField__psiP_e_pg", put(ex["psiP"]))


def solve(sim, simtype: str):
    if simtype == "PhaseField":
        return sim.Solve(tolConv=0.5, maxIter=6)
    return sim.Solve()


def is_nonconvergence(exc: BaseException) -> bool:
    m = str(exc)
    return isinstance(exc, AssertionError) and ("did not converge" in m or "det(F)" in m or "reduce the load step" in m)
