"""Engine `fresh` (C14): a stateful simulation must behave like a freshly built one.

World: 1-3 live simulations over 1-2 live meshes and 1-2 live models (with sharing), driven by a
seeded sequence of public mutators and reads.  Reference: a declarative record of the final
configuration from which brand-new objects are built whenever something is read.
"""

import numpy as np

from ..kernel import World, Violation, Discard, SutError, arr_rng
from .. import meshlib, simlib, refs, seams


class MeshRec:
    def __init__(self, raw, orphans=0, variant=0):
        self.raw = raw
        self.coord = raw.coord.copy()
        if variant:
            # a stretched copy of another mesh of the run: same connectivity, same number of dofs, other operators
            c = self.coord.mean(axis=0)
            self.coord = (self.coord - c) * np.array([1.3, 0.8, 1.0]) + c
        if orphans:
            # nodes that no element uses (left over by a mesh generator): every mesh of a run may have its own number
            z = float(raw.coord[:, 2].max())
            self.coord = np.vstack([self.coord, [[10.0 + i, 10.0, z] for i in range(orphans)]])
        self.live = meshlib.build(raw, coord=self.coord)
        self.dim = 3 if raw.main[0][0].startswith(("HEXA", "TETRA", "PRISM")) else 2


class ModelRec:
    def __init__(self, kind, params, mesh=None):
        self.kind = kind
        self.params = dict(params)
        self.live = self.fresh(mesh)

    def fresh(self, mesh=None):
        if self.kind.startswith("wf_"):
            return simlib.make_weakforms(mesh, self.params)
        return simlib.make_model(self.kind, self.params)


class SimRec:
    def __init__(self, simtype, mi, mo):
        self.type = simtype
        self.mesh_i = mi
        self.model_i = mo
        self.rho = 1.0
        self.rayleigh = (0.0, 0.0)
        self.bcs = []  # resolved: (kind, pt, nodes, dofs, values, unknowns)
        self.algo = {"algo": "elliptic"}
        self.mesh_hist = [mi]  # mesh record index per entry of the simulation's mesh list
        self.iters = []  # index into mesh_hist per saved iteration
        self.hist_i = 0  # current index into mesh_hist (the simulation's mesh index)
        self.live = None
        self.solved = False
        self.extra_reset = False  # mesh replaced and nothing solved/restored since
        self.pf_solved = False
        self.lin_dirty = True  # PhaseField: an invalidating mutator happened since the last Solve
        self.unsaved = False  # a Solve happened since the last Save_Iter / Set_Iter (a discardable attempt)


def tags_ok(world, rec) -> bool:
    """The scripted load scenario needs a simulation whose mesh is not shared with a weak-form model."""
    return rec.type != "WeakForms"


class FreshWorld(World):
    PROPERTY = "C14"
    ENGINE = "fresh"

    # ------------------------------------------------------------------ config
    @classmethod
    def gen_config(cls, rng, tier, faults):
        lib = meshlib.library()
        if rng.random() < 0.1:
            from .fresh_beam import BeamFresh

            return {"beam": BeamFresh.gen_beam_config(rng), "nops": int(rng.integers(8, 26)), "faults": False}
        if rng.random() < 0.08:
            # sequences that go through the disk (Save / Load_Simu / Set_Iter onto a mesh read from a file), then move the
            # mesh in use: see engines/fresh_disk.py
            from .fresh_disk import DiskFresh

            return {"disk": DiskFresh.gen_disk_config(rng, tier), "nops": int(rng.integers(10, 31)), "faults": False}
        three_d = rng.random() < (0.15 if tier == "quick" else 0.25)
        dim = 3 if three_d else 2
        maxNn = 40 if tier == "quick" else 80
        cands = [n for n in meshlib.names(dim=dim) if lib[n].Nn <= maxNn]
        small = [n for n in cands if lib[n].Nn <= 30 and lib[n].main[0][0] in ("TRI3", "QUAD4", "TRI6", "HEXA8")] or cands
        n_mesh = int(rng.integers(1, 3))
        types = ["Elastic", "Thermal", "PhaseField", "HyperElastic", "InElastic", "WeakForms"]
        pt = np.array([3, 2, 1.5, 1.5, 1.5, 1.0]) if dim == 2 else np.array([3, 2, 0.3, 0.5, 0.5, 0.0])
        n_sim = int(rng.choice([1, 2, 3], p=[0.5, 0.3, 0.2]))
        sts = [types[int(rng.choice(len(types), p=pt / pt.sum()))] for _ in range(n_sim)]
        heavy = any(t not in ("Elastic", "Thermal") for t in sts)
        pool = small if heavy else cands
        meshes = [pool[int(rng.integers(len(pool)))] for _ in range(n_mesh)]
        sims = []
        models = []
        for st in sts:
            kinds = simlib.SIM_MODEL[st]
            kind = kinds[int(rng.integers(len(kinds)))]
            mi = int(rng.integers(n_mesh))
            # share an existing model of the right kind with probability 1/2 (weak forms are bound to one mesh)
            same = [i for i, m in enumerate(models) if m["kind"] == kind and not kind.startswith("wf_")]
            if same and rng.random() < 0.5:
                mo = same[int(rng.integers(len(same)))]
            else:
                models.append({"kind": kind, "params": simlib.gen_model_params(kind, rng, dim), "mesh": mi})
                mo = len(models) - 1
            sims.append({"type": st, "mesh": mi, "model": mo})
        nops = int(rng.integers(8, 26 if tier == "quick" else 41))
        cfg = {"dim": dim, "meshes": meshes, "models": models, "sims": sims, "nops": nops, "faults": bool(faults)}
        if not heavy and rng.random() < 0.25:
            # nodes attached to no element, a different number per mesh (what is known about them must follow the mesh)
            cfg["orphans"] = [int(rng.integers(0, 4)) for _ in meshes]
        elif n_mesh == 2 and rng.random() < 0.35:
            # the second mesh is a stretched copy of the first (a remeshing that keeps the topology): nothing in the
            # sizes of the arrays tells the two apart
            cfg["meshes"] = [meshes[0], meshes[0]]
            cfg["variants"] = [0, 1]
        return cfg

    # ------------------------------------------------------------------ build
    def __init__(self, cfg, ctx):
        super().__init__(cfg, ctx)
        from EasyFEA.Simulations import Solvers

        self.E = __import__("EasyFEA")
        self.clock = seams.ClockSeam(ctx, self.E)
        self.solver = seams.SolverSeam(ctx, Solvers)
        from EasyFEA.Simulations import _simu as _simu_mod

        self.alloc = seams.AllocSeam(ctx, _simu_mod)
        self.beam = None
        if "disk" in cfg:
            from .fresh_disk import DiskFresh

            try:
                self.beam = DiskFresh(cfg, ctx)
            except BaseException:
                self.close()
                raise
            self.gen_op = self.beam.gen_op
            self.apply = self.beam.apply
            self.observe = self.beam.observe
            self.abstract_state = self.beam.abstract_state
            self.finish = lambda: self.beam._compare("end-of-run")
            return
        if "beam" in cfg:
            from .fresh_beam import BeamFresh

            try:
                self.beam = BeamFresh(cfg, ctx)
            except BaseException:
                self.close()
                raise
            # the frame actor has its own operations and reference: delegate
            self.gen_op = self.beam.gen_op
            self.apply = self.beam.apply
            self.observe = self.beam.observe
            self.abstract_state = self.beam.abstract_state
            self.finish = self.beam.finish
            return
        lib = meshlib.library()
        self.dim = cfg["dim"]
        with ctx.sut():
            orph = cfg.get("orphans") or [0] * len(cfg["meshes"])
            var = cfg.get("variants") or [0] * len(cfg["meshes"])
            self.meshes = [MeshRec(lib[n], orph[i], var[i]) for i, n in enumerate(cfg["meshes"])]
            if any(var):
                ctx.probe("mesh_is_a_stretched_copy_of_another")
            if any(orph):
                ctx.probe("mesh_with_orphan_nodes")
            self.models = [ModelRec(m["kind"], m["params"], self.meshes[m.get("mesh", 0)].live) for m in cfg["models"]]
            self.sims = []
            for s in cfg["sims"]:
                rec = SimRec(s["type"], s["mesh"], s["model"])
                rec.live = simlib.make_sim(s["type"], self.meshes[s["mesh"]].live, self.models[s["model"]].live)
                self.sims.append(rec)

    def close(self):
        if self.beam is not None and hasattr(self.beam, "close"):
            self.beam.close()
        self.alloc.close()
        self.solver.close()
        self.clock.close()

    # ------------------------------------------------------------------ reference
    def fresh_sim(self, rec: SimRec, with_state=True):
        """A brand-new simulation in the recorded final configuration."""
        mrec = self.meshes[rec.mesh_i]
        mesh = meshlib.build(mrec.raw, coord=mrec.coord)
        model = self.models[rec.model_i].fresh(mesh)
        sim = simlib.make_sim(rec.type, mesh, model)
        sim.rho = rec.rho.copy() if isinstance(rec.rho, np.ndarray) else rec.rho
        if rec.type == "Elastic":
            sim.Set_Rayleigh_Damping_Coefs(*rec.rayleigh)
        simlib.apply_algo(sim, rec.algo)
        for kind, pt, nodes, dofs, values, unknowns in rec.bcs:
            if kind == "D":
                sim._Bc_Add_Dirichlet(pt, nodes, values, dofs, unknowns)
            else:
                sim._Bc_Add_Neumann(pt, nodes, values, dofs, unknowns)
        if with_state:
            simlib.set_state(sim, simlib.get_state(rec.live))
            if rec.extra_reset:
                pass  # a replaced mesh has no history: the reference keeps the empty state of a new simulation
            else:
                simlib.set_extra(sim, rec.type, simlib.get_extra(rec.live, rec.type))
        return sim

    # ------------------------------------------------------------------ generation
    def _usets(self, rec: SimRec) -> list:
        """Subsets of unknowns that a condition may address (first = all of them)."""
        un = list(rec.live.Get_unknowns())
        if len(un) == 1:
            return [un]
        out = [un, [un[0]], [un[-1]], list(reversed(un))]
        if len(un) == 3:
            out.append([un[2], un[1]])
        return out

    def _small_values(self, rec: SimRec) -> bool:
        return rec.type in ("HyperElastic", "InElastic", "PhaseField")

    def _well_posed(self, rec: SimRec) -> bool:
        need = set(rec.live.Get_unknowns())
        have = set()
        for kind, pt, nodes, dofs, values, unknowns in rec.bcs:
            if kind == "D" and len(nodes) >= 2:
                have.update(unknowns)
        return need <= have

    def gen_op(self, rng, frng):
        # scripted multi-step scenarios (recorded as ordinary ops): uniformly random schedules mostly revisit the same
        # states, so a few known-hard orderings are injected now and then
        q = getattr(self, "_queue", [])
        if q:
            op = q.pop(0)
            rec = self.sims[op["s"]] if "s" in op else self.sims[0]
            if op["op"] == "gen":
                used = sorted({r.mesh_i for r in self.sims})
                out = self._finish_op({"op": op["name"]}, op["s"], rec, rng, frng, used[0])
                if op.get("force_inplace"):
                    out["field"] = {"aseed": int(rng.integers(1 << 30)), "inplace": True}
                return out
            elif op["op"] == "set_iter_last":
                if not rec.iters:
                    self._queue = []
                else:
                    return {"op": "set_iter", "s": op["s"], "i": len(rec.iters) - 1}
            elif op["op"] == "set_iter":
                others = [i for i, h in enumerate(rec.iters) if h != rec.hist_i]
                if not others:
                    self._queue = []
                else:
                    op["i"] = others[int(rng.integers(len(others)))]
                    return op
            elif op["op"] == "coord":
                op.update(mesh=rec.mesh_i, kind=op.pop("force_kind", None) or ["jitter", "scale", "rigid"][int(rng.integers(3))], aseed=int(rng.integers(1 << 30)))
                return op
            elif op["op"] == "read":
                op["op"] = "solve" if (self._well_posed(rec) and rng.random() < 0.5) or rec.type in simlib.NONLINEAR else "kcmf"
                if op["op"] == "solve" and not self._well_posed(rec):
                    op["op"] = "kcmf" if rec.type not in simlib.NONLINEAR else "save_iter"
                op["_mut"] = op["op"] != "kcmf"
                return op
            else:
                return op
        s = int(rng.integers(len(self.sims)))
        rec = self.sims[s]
        if len(self.meshes) > 1 and rec.type != "WeakForms" and rng.random() < 0.05:
            other = [j for j in range(len(self.meshes)) if j != rec.mesh_i]
            j = other[int(rng.integers(len(other)))]
            # save on the current mesh, replace it, save, come back with Set_Iter, read, move the old mesh, read
            self._queue = [{"op": "setmesh", "s": s, "mesh": j}, {"op": "save_iter", "s": s}, {"op": "set_iter", "s": s},
                           {"op": "read", "s": s}, {"op": "coord"}, {"op": "read", "s": s}]
            self._queue[4]["s"] = s
            return {"op": "save_iter", "s": s}
        if rng.random() < 0.05 and tags_ok(self, rec):
            # a distributed load, the mesh in use re-coordinated (other Jacobians), the conditions cleared, the same load
            # entered again on the same node set: what it integrates must be the geometry of now
            used0 = sorted({r.mesh_i for r in self.sims})
            first = self._finish_op({"op": "load"}, s, rec, rng, frng, used0[0])
            if first.get("kind") == "neumann":
                first["kind"] = "surfLoad" if self.dim == 3 else "lineLoad"
                if first.get("tag") in ("S0", "V0") and self.dim == 2:
                    first["kind"] = "volumeLoad"
            self._queue = [{"op": "coord", "s": s, "force_kind": "scale"}, {"op": "bc_init", "s": s}, dict(first), {"op": "read", "s": s}]
            return first
        orph = self.cfg.get("orphans")
        if orph and rec.solved and len(self.meshes) > 1 and rec.type != "WeakForms" and rng.random() < 0.2:
            other = [j for j in range(len(self.meshes)) if j != rec.mesh_i and orph[j] != orph[rec.mesh_i]]
            if other:
                # solved on a mesh with k unused nodes: replace it by one with another number of them and solve again
                self._queue = [{"op": "gen", "name": "dirichlet", "s": s}, {"op": "gen", "name": "solve", "s": s}]
                return {"op": "setmesh", "s": s, "mesh": other[int(rng.integers(len(other)))]}
        if rec.solved and self._well_posed(rec) and rng.random() < 0.04:
            # a discarded attempt: save, change the loading, solve, go back to the saved iteration, read / solve again
            self._queue = [{"op": "gen", "name": "dirichlet", "s": s}, {"op": "gen", "name": "solve", "s": s}, {"op": "set_iter_last", "s": s},
                           {"op": "read", "s": s}, {"op": "read", "s": s}]
            if not (rec.type == "PhaseField" and not rec.pf_solved):
                return {"op": "save_iter", "s": s}
            self._queue = []
        # meshes in use are moved more often than idle ones
        used = sorted({r.mesh_i for r in self.sims})
        mrec_i = used[int(rng.integers(len(used)))] if rng.random() < 0.8 else int(rng.integers(len(self.meshes)))
        # after a mutator, read an affected simulation next with probability 0.6 (faults/staleness need in-flight state)
        pend = getattr(self, "_pending", None)
        self._pending = None
        if pend is not None and rng.random() < 0.6:
            cands = [i for i in pend if i < len(self.sims)]
            if cands:
                s = cands[int(rng.integers(len(cands)))]
                rec = self.sims[s]
                reads = []
                if self._well_posed(rec):
                    reads += ["solve"] * 3
                if rec.type not in simlib.NONLINEAR:
                    reads += ["kcmf"] * 2
                if rec.solved:
                    reads += ["result"]
                if reads:
                    return self._finish_op({"op": reads[int(rng.integers(len(reads)))]}, s, rec, rng, frng, mrec_i)
        w = {
            "param": 3, "rho": 1, "rayleigh": 1, "translate": 1, "rotate": 1.5, "symmetry": 0.7,
            "coord": 2, "setmesh": 1, "bc_init": 0.5, "dirichlet": 3, "load": 2, "algo": 1.5,
            "solve": 4, "kcmf": 3, "result": 2, "save_iter": 1.5, "set_iter": 1,
        }
        if rec.type != "Elastic":
            w["rayleigh"] = 0
        if rec.type in simlib.NONLINEAR:
            w["kcmf"] = 0  # the tangent system of a nonlinear simulation only exists inside a Newton loop
        if rec.type == "WeakForms":
            w["setmesh"] = 0  # the Field of a weak-form model is bound to one element group by construction
        if rec.type in ("PhaseField", "InElastic", "Thermal", "WeakForms"):
            w["rho"] = 0.3
        if self.dim == 3:
            w["symmetry"] = 0.4
        if not self._well_posed(rec):
            w["solve"] = 0
            w["dirichlet"] = 6
        if not rec.solved:
            w["result"] = 0.3
        if not rec.iters:
            w["set_iter"] = 0
        if len(simlib.sim_algos(rec.type)) > 1 and rec.algo["algo"] == "elliptic":
            w["algo"] = 3
        if len(self.meshes) > 1 and rec.type != "WeakForms":
            # histories over several meshes: save on one, replace, come back with Set_Iter, move the old mesh
            w["setmesh"] = 1.5
            w["save_iter"] = 2.5
        self._other_iters = [i for i, h in enumerate(rec.iters) if h != rec.hist_i]
        if self._other_iters:
            w["set_iter"] = 3
        names = sorted(w)
        p = np.array([w[n] for n in names], dtype=float)
        name = names[int(rng.choice(len(names), p=p / p.sum()))]
        return self._finish_op({"op": name}, s, rec, rng, frng, mrec_i)

    def _finish_op(self, op, s, rec, rng, frng, mrec_i):
        name = op["op"]
        tags = simlib.boundary_tags(self.meshes[rec.mesh_i].raw)
        if name == "param":
            mo = int(rng.integers(len(self.models)))
            pn, pv = simlib.gen_param_write(self.models[mo].kind, rng)
            op.update(m=mo, name=pn, val=pv)
        elif name == "rho":
            op.update(s=s, val=float(np.round(rng.uniform(0.5, 5.0), 3)))
            if rec.type in ("Elastic", "Thermal") and len(rec.mesh_hist) == 1 and len(self.meshes) == 1 and rng.random() < 0.4:
                # a density field (one value per element), either a new array or -- what users do -- the array assigned
                # before, modified in place and assigned again
                op["field"] = {"aseed": int(rng.integers(1 << 30)), "inplace": bool(rng.random() < 0.5)}
                if not getattr(self, "_queue", None):
                    # then: read, modify the same array in place and assign it again, read
                    self._queue = [{"op": "read", "s": s}, {"op": "gen", "name": "rho", "s": s, "force_inplace": True}, {"op": "read", "s": s}]
        elif name == "rayleigh":
            op.update(s=s, cm=float(np.round(rng.uniform(0, 0.5), 3)), ck=float(np.round(rng.uniform(0, 0.05), 4)))
        elif name == "translate":
            d = np.round(rng.uniform(-2, 2, 3), 3).tolist()
            if self.dim == 2:
                d[2] = 0.0
            op.update(mesh=mrec_i, d=d)
        elif name == "rotate":
            op.update(mesh=mrec_i, theta=float(np.round(rng.uniform(-180, 180), 2)))
            if self.dim == 3:
                op["dir"] = np.round(rng.normal(size=3), 3).tolist()
        elif name == "symmetry":
            n = np.round(rng.normal(size=3), 3)
            if self.dim == 2:
                n[2] = 0.0
            if not np.any(n):
                n[0] = 1.0
            op.update(mesh=mrec_i, n=n.tolist())
        elif name == "coord":
            op.update(mesh=mrec_i, kind=["rigid", "jitter", "scale"][int(rng.integers(3))], aseed=int(rng.integers(1 << 30)))
        elif name == "setmesh":
            op.update(s=s, mesh=mrec_i)
        elif name == "bc_init":
            op.update(s=s)
        elif name == "dirichlet":
            us = self._usets(rec)
            full = not self._well_posed(rec) and rng.random() < 0.8
            un = us[0] if full else us[int(rng.integers(len(us)))]
            sc = 0.03 if self._small_values(rec) else 1.0
            vals = {"const": np.round(rng.uniform(-1, 1, len(un)) * sc * (rng.random() < 0.7), 5).tolist()} if rng.random() < 0.7 else {"aseed": int(rng.integers(1 << 30)), "scale": 0.1 * sc}
            op.update(s=s, tag=tags[int(rng.integers(len(tags)))], unknowns=un, vals=vals)
        elif name == "load":
            us = self._usets(rec)
            un = us[int(rng.integers(len(us)))]
            kind = ["neumann", "lineLoad", "surfLoad", "volumeLoad"][int(rng.integers(4))]
            if self.dim == 3 and kind == "lineLoad":
                kind = "surfLoad"
            tag = tags[int(rng.integers(len(tags)))]
            if kind == "volumeLoad":
                tag = "V0" if self.dim == 3 else "S0"
            sc = 0.05 if self._small_values(rec) else 1.0
            op.update(s=s, kind=kind, tag=tag, unknowns=un, vals={"const": np.round(rng.uniform(-2, 2, len(un)) * sc, 5).tolist()})
        elif name == "algo":
            op.update(s=s, spec=simlib.gen_algo(rec.type, rng))
        elif name in ("solve", "kcmf", "save_iter"):
            op.update(s=s)
            if name == "solve" and self.cfg.get("faults") and frng.random() < 0.25:
                op["fault"] = {"seam": "solver", "kind": ["memerr", "singular"][int(frng.integers(2))], "k": 1}
            elif name in ("solve", "kcmf") and self.cfg.get("faults") and frng.random() < 0.3:
                # the assembly this read triggers is interrupted by a failing allocation; the read is then repeated
                op["fault"] = {"seam": "alloc", "kind": "memerr", "k": int(frng.integers(1, 6))}
        elif name == "result":
            rs = simlib.sim_results(rec.type, self.dim)
            op.update(s=s, name=rs[int(rng.integers(len(rs)))], nodeValues=bool(rng.integers(2)))
        elif name == "set_iter":
            others = [i for i, h in enumerate(rec.iters) if h != rec.hist_i]
            if rec.unsaved and rng.random() < 0.5:
                # discard the attempt: back to the last saved iteration (Set_Iter(-1) of a user's retry loop)
                op.update(s=s, i=len(rec.iters) - 1)
            elif others and rng.random() < 0.7:
                op.update(s=s, i=others[int(rng.integers(len(others)))])
            else:
                op.update(s=s, i=int(rng.integers(len(rec.iters))))
        if name in ("solve", "kcmf", "result"):
            op["_mut"] = name == "solve"
        # who is affected by this mutator?
        if name == "param":
            self._pending = [i for i, r in enumerate(self.sims) if r.model_i == op["m"]]
        elif name in ("translate", "rotate", "symmetry", "coord"):
            self._pending = [i for i, r in enumerate(self.sims) if r.mesh_i == op["mesh"]]
        elif name in ("rho", "rayleigh", "algo", "set_iter", "dirichlet", "load"):
            self._pending = [s]
        return op

    # ------------------------------------------------------------------ helpers
    def _mesh_moved(self, mrec: MeshRec):
        with self.ctx.sut():
            mrec.coord = mrec.live.coord.copy()

    def _new_coord(self, mrec: MeshRec, op) -> np.ndarray:
        rng = arr_rng(op["aseed"], 3)
        X = mrec.coord.copy()
        c = X.mean(axis=0)
        if op["kind"] == "rigid":
            th = rng.uniform(-np.pi, np.pi)
            R = np.eye(3)
            R[:2, :2] = [[np.cos(th), -np.sin(th)], [np.sin(th), np.cos(th)]]
            t = np.round(rng.uniform(-1, 1, 3), 3)
            if self.dim == 2:
                t[2] = 0
            return (X - c) @ R.T + c + t
        if op["kind"] == "scale":
            f = np.array([rng.uniform(0.5, 2.0), rng.uniform(0.5, 2.0), rng.uniform(0.5, 2.0) if self.dim == 3 else 1.0])
            return (X - c) * f + c
        # jitter: small non-rigid perturbation (elements stay valid)
        span = np.ptp(X, axis=0).max()
        J = rng.uniform(-1, 1, X.shape) * 0.02 * span
        if self.dim == 2:
            J[:, 2] = 0
        return X + J

    def _interrupted_read(self, rec: SimRec, fault):
        """An assembly of the live simulation is interrupted by an injected allocation failure.  Nothing is checked
        here: the point is the *next* read, which must be the one of a freshly built simulation all the same."""
        live = rec.live
        if rec.type in simlib.NONLINEAR:
            return
        self.alloc.arm(fault)
        failed = None
        try:
            with self.ctx.sut():
                for pt in live.Get_problemTypes():
                    live.Get_K_C_M_F(pt)
        except SutError as e:
            failed = e
        finally:
            pending = self.alloc.disarm()
        if not pending:
            if failed is None:
                raise Violation("fault-swallowed", "an injected allocation failure did not surface from Get_K_C_M_F()")
            self.ctx.probe("assembly_interrupted_then_repeated")
        elif failed is not None:
            raise Violation("live-raises-fresh-succeeds", f"Get_K_C_M_F raised {failed}", failed.site)

    def _compare_systems(self, rec: SimRec, what: str):
        F = self.fresh_sim(rec)
        live = rec.live
        if rec.type in simlib.NONLINEAR:
            return F
        if rec.type == "PhaseField" and not rec.lin_dirty:
            # the staggered scheme linearises about the previous iterate: right after a Solve the assembled
            # operators are K(u_k, d_k+1) by design, not those of the final state. They must agree with a fresh
            # build again as soon as any mutator invalidates them.
            self.ctx.probe("pf_compare_skipped_linearisation_point")
            return F
        with self.ctx.sut():
            ref = [F.Get_K_C_M_F(pt) for pt in F.Get_problemTypes()]
        try:
            with self.ctx.sut():
                got = [live.Get_K_C_M_F(pt) for pt in live.Get_problemTypes()]
        except SutError as e:
            raise Violation("live-raises-fresh-succeeds", f"{what}: Get_K_C_M_F raised {e}", e.site)
        for pt, g, r in zip(live.Get_problemTypes(), got, ref):
            if any(M.nnz and not np.all(np.isfinite(M.data)) for M in r):
                raise Discard("operators of the fresh simulation are not finite (degenerate split state)")
            kscale = refs.maxabs(r[0].data) if r[0].nnz else 0.0
            for nm, A, B in zip("KCMF", g, r):
                refs.sparse_close("stale-system", f"{what}: {nm} ({pt}) of the live simulation vs fresh build", A, B, rtol=1e-9, atol=1e-15 * kscale)
                self.ctx.checked()
        return F

    # ------------------------------------------------------------------ apply
    def apply(self, op):
        ctx = self.ctx
        name = op["op"]
        if "s" in op:
            if op["s"] >= len(self.sims):
                return "skip"
            rec = self.sims[op["s"]]
        if "mesh" in op and op["mesh"] >= len(self.meshes):
            return "skip"
        if "m" in op and op["m"] >= len(self.models):
            return "skip"

        if name == "param":
            mo = self.models[op["m"]]
            if op["name"].replace("mat.", "").replace("el.", "") not in mo.params:
                return "skip"
            if mo.kind == "behavior" and op["name"] == "planeStress" and mo.params["dim"] == 3:
                return "skip"
            with ctx.sut():
                simlib.write_param(mo.live, mo.kind, mo.params, op["name"], op["val"])
            for r in self.sims:
                if r.model_i == op["m"]:
                    r.lin_dirty = True
            return "ok"

        if name == "rho":
            if "field" in op:
                if len(rec.mesh_hist) != 1 or len(self.meshes) != 1:
                    return "skip"
                Ne = self.meshes[rec.mesh_i].raw.main[0][1].shape[0]
                held = getattr(rec, "rho_user", None)
                if op["field"]["inplace"] and isinstance(held, np.ndarray) and held.shape == (Ne,):
                    held *= op["val"] / 2.0 + 0.3  # in place: the simulation may hold a reference to this very array
                    ctx.probe("density_array_modified_in_place_and_assigned_again")
                else:
                    held = np.round(arr_rng(op["field"]["aseed"]).uniform(0.5, 5.0, Ne), 3)
                with ctx.sut():
                    rec.live.rho = held
                rec.rho_user = held
                rec.rho = held.copy()
                rec.lin_dirty = True
                return "ok"
            with ctx.sut():
                rec.live.rho = op["val"]
            rec.rho = op["val"]
            rec.rho_user = None
            rec.lin_dirty = True
            return "ok"

        if name == "rayleigh":
            if rec.type != "Elastic":
                return "skip"
            with ctx.sut():
                rec.live.Set_Rayleigh_Damping_Coefs(op["cm"], op["ck"])
            rec.rayleigh = (op["cm"], op["ck"])
            return "ok"

        if name in ("translate", "rotate", "symmetry", "coord"):
            if name == "coord" and "s" in op:
                # scenario form: move the mesh the simulation currently uses
                op = dict(op, mesh=self.sims[op["s"]].mesh_i) if op["s"] < len(self.sims) else op
            mrec = self.meshes[op["mesh"]]
            with ctx.sut():
                if name == "translate":
                    mrec.live.Translate(*op["d"])
                elif name == "rotate":
                    c = mrec.coord.mean(axis=0)
                    mrec.live.Rotate(op["theta"], tuple(c), tuple(op.get("dir", (0, 0, 1))))
                elif name == "symmetry":
                    c = mrec.coord.mean(axis=0)
                    mrec.live.Symmetry(tuple(c), tuple(op["n"]))
                else:
                    mrec.live.coord = self._new_coord(mrec, op)
            self._mesh_moved(mrec)
            for r in self.sims:
                if r.mesh_i == op["mesh"]:
                    r.lin_dirty = True
            ctx.probe("mesh_moved_" + name)
            return "ok"

        if name == "setmesh":
            if rec.type == "WeakForms":
                return "skip"
            mrec = self.meshes[op["mesh"]]
            with ctx.sut():
                rec.live.mesh = mrec.live
            rec.extra_reset = True
            rec.lin_dirty = True
            rec.mesh_i = op["mesh"]
            rec.mesh_hist.append(op["mesh"])
            rec.hist_i = len(rec.mesh_hist) - 1
            rec.bcs = []
            rec.solved = False
            ctx.probe("mesh_replaced")
            return "ok"

        if name == "bc_init":
            with ctx.sut():
                rec.live.Bc_Init()
            rec.bcs = []
            return "ok"

        if name in ("dirichlet", "load"):
            return self._apply_bc(rec, op)

        if name == "algo":
            if op["spec"]["algo"] not in simlib.sim_algos(rec.type):
                return "skip"
            with ctx.sut():
                simlib.apply_algo(rec.live, op["spec"])
            rec.algo = dict(op["spec"])
            return "ok"

        if name == "kcmf":
            if self.cfg.get("faults") and op.get("fault", {}).get("seam") == "alloc":
                self._interrupted_read(rec, op["fault"])
            self._compare_systems(rec, "kcmf")
            return "ok"

        if name == "solve":
            if not self._well_posed(rec):
                return "skip"
            return self._apply_solve(rec, op)

        if name == "result":
            if op["name"] not in simlib.sim_results(rec.type, self.dim):
                return "skip"
            if rec.type in ("HyperElastic",) and not rec.solved:
                return "skip"
            if rec.type == "PhaseField" and op["name"] in ("Wdef", "Psi_Crack") and not rec.lin_dirty:
                return "skip"
            F = self.fresh_sim(rec)
            with ctx.sut():
                ref = F.Result(op["name"], op["nodeValues"])
            if ref is None:
                return "skip"
            try:
                with ctx.sut():
                    got = rec.live.Result(op["name"], op["nodeValues"])
            except SutError as e:
                raise Violation("live-raises-fresh-succeeds", f"Result({op['name']}) raised {e}", e.site)
            refs.require_close("stale-result", f"Result({op['name']}, nodeValues={op['nodeValues']}) live vs fresh", got, ref, rtol=1e-8, atol=1e-13)
            ctx.checked()
            return "ok"

        if name == "save_iter":
            if rec.type == "PhaseField" and not rec.pf_solved:
                return "skip"  # PhaseField.Save_Iter stores the convergence info of the last Solve
            with ctx.sut():
                rec.live.Save_Iter()
            rec.iters.append(rec.hist_i)
            rec.unsaved = False
            return "ok"

        if name == "set_iter":
            if op["i"] >= len(rec.iters):
                return "skip"
            h = rec.iters[op["i"]]
            cur = rec.hist_i
            with ctx.sut():
                rec.live.Set_Iter(op["i"])
            rec.hist_i = h
            rec.lin_dirty = True
            rec.unsaved = False
            rec.extra_reset = False
            rec.mesh_i = rec.mesh_hist[h]
            if h != cur:
                # going back to another mesh of the history: node ids differ, a user re-states the conditions
                with ctx.sut():
                    rec.live.Bc_Init()
                rec.bcs = []
                ctx.probe("set_iter_switched_mesh")
            rec.solved = True
            return "ok"

        raise ValueError(f"unknown op {name}")

    def _apply_bc(self, rec: SimRec, op):
        ctx = self.ctx
        live = rec.live
        mrec = self.meshes[rec.mesh_i]
        tags = simlib.boundary_tags(mrec.raw) + ["S0", "V0"]
        if op["tag"] not in tags:
            return "skip"
        if not set(op["unknowns"]) <= set(live.Get_unknowns()):
            return "skip"
        if rec.type == "PhaseField" and op.get("kind") == "volumeLoad":
            return "skip"  # PhaseField does not override add_volumeLoad: its default problem type is the damage problem
        F = self.fresh_sim(rec, with_state=False)

        def do(sim):
            nodes = sim.mesh.Nodes_Tags(op["tag"])
            if nodes.size == 0:
                return False
            vals = simlib.values_for(op["vals"], nodes.size, len(op["unknowns"]))
            if op["op"] == "dirichlet":
                sim.add_dirichlet(nodes, vals, op["unknowns"])
            else:
                getattr(sim, {"neumann": "add_neumann", "lineLoad": "add_lineLoad", "surfLoad": "add_surfLoad", "volumeLoad": "add_volumeLoad"}[op["kind"]])(nodes, vals, op["unknowns"])
            return True

        with ctx.sut():
            ok = do(F)
        if not ok:
            return "skip"
        try:
            with ctx.sut():
                do(live)
        except SutError as e:
            raise Violation("live-raises-fresh-succeeds", f"{op['op']} raised {e}", e.site)
        with ctx.sut():
            if op["op"] == "dirichlet":
                lst_l, lst_f, kind = live.Bc_Dirichlet, F.Bc_Dirichlet, "D"
            else:
                lst_l, lst_f, kind = live.Bc_Neuman, F.Bc_Neuman, "N"
        if len(lst_l) != len(lst_f):
            # add_* silently does nothing when no element is loaded; same on both sides or a finding
            raise Violation("stale-bc", f"{op['op']}: live holds {len(lst_l)} conditions, fresh {len(lst_f)}")
        n_before = sum(1 for b in rec.bcs if b[0] == kind)
        if len(lst_l) == n_before:
            return "noop"
        bl, bf = lst_l[-1], lst_f[-1]
        if not np.array_equal(bl.dofs, bf.dofs):
            raise Violation("stale-bc", f"{op['op']}: dofs of the new condition differ from a fresh simulation's")
        refs.require_close("stale-bc", f"{op['op']} {op.get('kind','')} values on {op['tag']} live vs fresh", bl.dofsValues, bf.dofsValues, rtol=1e-9, atol=1e-14)
        ctx.checked()
        rec.bcs.append((kind, bl.problemType, bl.nodes, bl.dofs, bl.dofsValues, bl.unknowns))
        return "ok"

    def _apply_solve(self, rec: SimRec, op):
        ctx = self.ctx
        live = rec.live
        fault = op.get("fault") if self.cfg.get("faults") else None
        if fault and fault.get("seam") == "alloc":
            self._interrupted_read(rec, fault)
            fault = None
        F = self._compare_systems(rec, "pre-solve")
        before = simlib.get_state(live)
        before_x = simlib.get_extra(live, rec.type)
        if fault:
            self.solver.arm(fault)
        try:
            with ctx.sut():
                simlib.solve(live, rec.type)
            failed = None
        except SutError as e:
            failed = e
        finally:
            pending = self.solver.disarm() if fault else False
        if fault and not pending:
            # the injected failure fired inside this Solve
            if failed is None:
                raise Violation("fault-swallowed", "an injected back-end failure did not surface from Solve()")
            if rec.type != "PhaseField":
                # (the staggered phase-field loop commits sub-steps; a failure in its middle legitimately leaves
                #  the fields of the last completed sub-step -- only the single-solve types are all-or-nothing)
                after = simlib.get_state(live)
                for pt in before:
                    for a, b, nm in zip(after[pt], before[pt], "uva"):
                        if not np.array_equal(a, b, equal_nan=True):
                            raise Violation("failed-solve-changed-state", f"{nm}_n ({pt}) changed by a Solve that raised {failed}")
                if rec.type == "InElastic":
                    ax = simlib.get_extra(live, rec.type)
                    for k in before_x["zOld"]:
                        if not np.array_equal(ax["zOld"][k], before_x["zOld"][k]):
                            raise Violation("failed-solve-changed-state", f"committed internal variables changed by a Solve that raised {failed}")
                ctx.checked()
            ctx.probe("solve_failed_by_fault")
            if rec.type == "PhaseField":
                # restart both sides from the pre-solve state: the reference never saw the fault
                simlib.set_state(live, before)
                simlib.set_extra(live, rec.type, before_x)
                live.Need_Update()
            # retry: must now equal the unfaulted reference
            try:
                with ctx.sut():
                    simlib.solve(live, rec.type)
                failed = None
            except SutError as e:
                if not simlib.is_nonconvergence(e.exc):
                    raise Violation("retry-after-fault-raises", f"Solve after an injected failure raised {e}", e.site)
                failed = e
            ctx.probe("solve_retried")
        try:
            with ctx.sut():
                simlib.solve(F, rec.type)
            fref = None
        except SutError as e:
            fref = e
        if failed is not None and fref is None:
            raise Violation("live-raises-fresh-succeeds", f"Solve raised {failed}", failed.site)
        if failed is None and fref is not None:
            raise Violation("fresh-raises-live-succeeds", f"fresh Solve raised {fref}", fref.site)
        if failed is not None:
            # the failed attempt may have left trial values behind (e.g. internal variables of the last Newton iterate):
            # from now on the reference is given the live simulation's state, as after any solve
            rec.extra_reset = False
            if simlib.is_nonconvergence(failed.exc):
                ctx.probe("solve_not_converged_both")
            return "exc:both:" + failed.kind
        sl, sf = simlib.get_state(live), simlib.get_state(F)
        if rec.type == "PhaseField" and self.models[rec.model_i].params.get("solver") == "BoundConstrain":
            # scipy's lsq_linear(method="trf", tol=1e-10) is an interior method: whenever round-off puts the
            # unconstrained minimiser a hair below the lower bound it returns a strictly interior point whose distance
            # to the bound is set by its optimality tolerance (1e-5 .. 1e-2 in damage, depending on Gc / l0), otherwise the
            # unconstrained solution itself.  Two exact copies of one problem can land on either side, so the solutions
            # of this back end are not comparable digit by digit; its *systems* are (and are compared above).
            for pt in sf:
                if not (np.all(np.isfinite(sl[pt][0])) == np.all(np.isfinite(sf[pt][0]))):
                    raise Violation("stale-solution", f"u ({pt}) after Solve: finite on one side only, live vs fresh [PhaseField, BoundConstrain]")
            self.ctx.probe("pf_boundconstrain_solution_not_compared_digitwise")
            sf = {}
        for pt in sf:
            if not np.all(np.isfinite(sf[pt][0])):
                raise Discard("fresh solution not finite (singular system or degenerate split)")
            # rates are differences of displacements divided by dt (dt^2): their round-off floor scales accordingly
            uscale = max(refs.maxabs(sf[pt][0]), refs.maxabs(before[pt][0]), 1e-300)
            dt = rec.algo.get("dt", 1.0)
            floors = {"u": 1e-13, "v": 1e-11 * uscale / dt + 1e-13, "a": 1e-11 * uscale / dt**2 + 1e-13}
            for a, b, nm in zip(sl[pt], sf[pt], "uva"):
                refs.require_close("stale-solution", f"{nm} ({pt}) after Solve, live vs fresh [{rec.type}, {rec.algo['algo']}]", a, b, rtol=1e-7, atol=floors[nm])
                ctx.checked()
        rec.solved = True
        rec.unsaved = True
        rec.extra_reset = False
        if rec.type == "PhaseField":
            rec.pf_solved = True
            rec.lin_dirty = False
        if rec.algo["algo"] != "elliptic":
            ctx.phys_time += rec.algo["dt"]
        return "ok"

    # ------------------------------------------------------------------ bookkeeping
    def observe(self):
        out = []
        for rec in self.sims:
            st = simlib.get_state(rec.live)
            out.append([st[k] for k in sorted(st)])
            out.append(bool(rec.live.needUpdate))
        for m in self.meshes:
            out.append(m.coord)
        return out

    def abstract_state(self):
        out = []
        for rec in self.sims:
            out.append((rec.type, rec.algo["algo"], bool(rec.live.needUpdate), len(rec.iters), rec.mesh_i, rec.model_i,
                        sum(1 for b in rec.bcs if b[0] == "D"), sum(1 for b in rec.bcs if b[0] == "N"), len(rec.mesh_hist)))
        return out

    def finish(self):
        for rec in self.sims:
            self._compare_systems(rec, "end-of-run")
