"""Engine `asm` (C03): every assembly -- the first one and every later one that reuses or rebuilds the cached
element-to-CSR map -- is the exact scatter-add of the element arrays the simulation produced.

Actors: a harness-defined _Simu subclass ("mixed": several groups, absent slots, complex values, two problem
types with different dofs per node in one object) and real simulations (Thermal, Elastic, PhaseField) whose
Construct_local_matrix_system is wrapped to record exactly what it returned for each call.
"""

import numpy as np

from ..kernel import World, Violation, SutError, arr_rng
from .. import meshlib, simlib, refs, seams

_MIXED_CLS = None


def mixed_class():
    """_Simu subclass whose element arrays are seeded random numbers (built lazily: needs EasyFEA)."""
    global _MIXED_CLS
    if _MIXED_CLS is not None:
        return _MIXED_CLS
    from EasyFEA.Simulations._simu import _Simu
    from EasyFEA.Simulations._problem_type import ProblemType

    class MixedSlots(_Simu):
        def __init__(self, mesh, model, spec):
            self.spec = spec
            self.last = {}
            super().__init__(mesh, model, "", False)

        def Get_problemTypes(self):
            return [ProblemType(k) for k in sorted(self.spec["dofn"])]

        def Get_unknowns(self, problemType=None):
            n = self.Get_dof_n(problemType)
            return ["x", "y", "z"][:n]

        def Get_dof_n(self, problemType=None):
            pt = self.problemType if problemType is None else problemType
            return int(self.spec["dofn"][str(pt)])

        def _Check_dim_mesh_material(self):
            pass

        def Get_x0(self, problemType=None):
            return np.zeros(self.mesh.Nn * self.Get_dof_n(problemType))

        def Construct_local_matrix_system(self, problemType):
            spec = self.spec
            dof_n = self.Get_dof_n(problemType)
            out = {}
            groups = []
            mesh = self.mesh
            for d in spec["dims"]:
                groups += mesh.Get_list_groupElem(d)
            if spec.get("foreign"):
                # boundary groups the user built himself (same element type and count as the mesh's own group, elements
                # in another order): rows and columns must come from the group that carries the values
                groups = [self._foreign_copy(g, spec["foreign"]) if g.dim < max(spec["dims"]) and g.dim > 0 else g for g in groups]
            only = {}
            if spec.get("patch"):
                # boundary patches the user builds himself: two sub-sets of the boundary group with the same element type
                # and the same number of elements, one carrying K and M terms (a Robin penalty), the other C and F terms (a
                # dashpot, a load); with "travel" the patches move along the boundary from one assembly to the next
                from EasyFEA.FEM import GroupElemFactory

                cache = self.__dict__.setdefault("_patch_groups", {})
                new = []
                for g in groups:
                    if 0 < g.dim < max(spec["dims"]) and g.Ne >= 4:
                        k = g.Ne // 2
                        shift = getattr(self, "patch_shift", 0) % g.Ne
                        idx = np.roll(np.arange(g.Ne), -shift)
                        for nm, sel, keep in (("A", idx[:k], (0, 2)), ("B", idx[k: 2 * k], (1, 3))):
                            key = (id(g), nm, shift)
                            if key not in cache:
                                cache[key] = (g, GroupElemFactory.Create(g.elemType, np.asarray(g.connect)[sel].copy(), np.asarray(self.mesh.coord).copy()))
                            new.append(cache[key][1])
                            only[id(cache[key][1])] = keep
                    else:
                        new.append(g)
                groups = new
            for gi, g in enumerate(groups):
                n = g.nPe * dof_n
                slots = []
                for si in range(4):
                    present = spec["slots"].get(f"{g.dim}:{si}", True)
                    if id(g) in only:
                        present = si in only[id(g)]
                    if not present:
                        slots.append(None)
                        continue
                    rng = arr_rng(spec["vseed"], g.dim, si, dof_n, sum(map(ord, str(problemType))))
                    shape = (g.Ne, n, n) if si < 3 else (g.Ne, n)
                    a = rng.uniform(-1, 1, shape)
                    if spec.get("complex"):
                        a = a + 1j * rng.uniform(-1, 1, shape)
                    slots.append(a)
                out[g] = tuple(slots)
            self.last[str(problemType)] = [(g.connect, tuple(None if a is None else np.array(a) for a in t)) for g, t in out.items()]
            return out

        def _foreign_copy(self, g, seed):
            from EasyFEA.FEM import GroupElemFactory

            cache = self.__dict__.setdefault("_foreign_groups", {})
            key = (id(g), seed)
            if key not in cache:
                order = arr_rng(seed, g.Ne).permutation(g.Ne)
                cache[key] = (g, GroupElemFactory.Create(g.elemType, np.asarray(g.connect)[order].copy(), np.asarray(self.mesh.coord).copy()))
            return cache[key][1]

        def Save_Iter(self, iter=None):
            return super().Save_Iter(iter)

        def Set_Iter(self, iter=-1, resetAll=False):
            return super().Set_Iter(iter)

        def Results_Available(self):
            return []

        def Result(self, option, nodeValues=True, iter=None):
            return None

        def Results_Iter_Summary(self):
            return super().Results_Iter_Summary()

        def Results_dict_Energy(self):
            return {}

        def Results_displacement_matrix(self):
            return super().Results_displacement_matrix()

        def Results_nodeFields_elementFields(self, details=False):
            return [], []

    _MIXED_CLS = MixedSlots
    return MixedSlots


CACHE_ATTR = "__cachedComputedValues"


class AsmWorld(World):
    PROPERTY = "C03"
    ENGINE = "asm"
    ASSUMPTIONS = [
        "the reference sums, entry by entry, the very element arrays Construct_local_matrix_system returned for the call being checked (recorded through a wrapper)",
        "dof of (node, component) = node*dof_n + component, local dofs node-major (the documented numbering)",
    ]

    @classmethod
    def gen_config(cls, rng, tier, faults):
        lib = meshlib.library()
        if rng.random() < (0.0006 if tier == "quick" else 0.002):
            # a system whose linear index row * Ndof + col needs more than 32 bits (see engines/asm_large.py)
            return {"actor": "large", "n": int(rng.integers(216, 232)), "k": float(np.round(10 ** rng.uniform(-1, 1), 4)), "c": float(np.round(rng.uniform(0.5, 3), 3)), "nops": 3, "faults": False}
        actor = ["mixed", "mixed", "Thermal", "Elastic", "PhaseField"][int(rng.integers(5))]
        dim = 3 if (actor in ("mixed", "Thermal") and rng.random() < 0.2) else 2
        maxNn = (30 if tier == "quick" else 60) if dim == 2 else 40
        cands = [n for n in meshlib.names(dim=dim) if lib[n].Nn <= maxNn]
        if dim == 2 and actor in ("mixed", "Thermal", "Elastic"):
            cands = cands + ["mixed_a", "mixed_b"]  # two main-dimension groups (TRI3 + QUAD4) in one mesh
        n_mesh = int(rng.integers(1, 3))
        meshes = [cands[int(rng.integers(len(cands)))] for _ in range(n_mesh)]
        cfg = {"actor": actor, "dim": dim, "meshes": meshes, "nops": int(rng.integers(8, 26)), "faults": bool(faults)}
        if actor == "mixed":
            npt = int(rng.integers(1, 3))
            cfg["spec"] = {
                "dofn": {f"p{i}": int(rng.integers(1, 4)) for i in range(npt)},
                "dims": [dim] + ([dim - 1] if rng.random() < 0.6 else []) + ([0] if rng.random() < 0.2 else []),
                "slots": {},
                "vseed": int(rng.integers(1 << 30)),
                "complex": bool(rng.random() < 0.25),
                "foreign": int(rng.integers(1, 1 << 20)) if rng.random() < 0.3 else 0,
                "patch": ({"travel": bool(rng.random() < 0.5)} if rng.random() < 0.2 else None),
            }
        else:
            kind = simlib.SIM_MODEL[actor][0]
            cfg["kind"] = kind
            cfg["params"] = simlib.gen_model_params(kind, rng, dim)
        return cfg

    def __init__(self, cfg, ctx):
        super().__init__(cfg, ctx)
        import EasyFEA
        from EasyFEA.Simulations import Solvers

        self.clock = seams.ClockSeam(ctx, EasyFEA)
        self.solver = seams.SolverSeam(ctx, Solvers)
        from EasyFEA.Simulations import _simu as _simu_mod

        self.alloc = seams.AllocSeam(ctx, _simu_mod)
        if cfg["actor"] == "large":
            from .asm_large import LargeAsm

            try:
                self.large = LargeAsm(cfg, ctx)
            except BaseException:
                self.close()
                raise
            self.gen_op = self.large.gen_op
            self.apply = self.large.apply
            self.observe = self.large.observe
            self.abstract_state = self.large.abstract_state
            self.finish = self.large.finish
            return
        lib = meshlib.library()
        self.raws = [lib[n] for n in cfg["meshes"]]
        self.actor = cfg["actor"]
        self.dim = cfg["dim"]
        self.mesh_i = 0
        self.perm = None
        self.jittered = False
        self.n_lagrange = 0
        self.recorded = {}
        with ctx.sut():
            mesh = meshlib.build(self.raws[0])
            if self.actor == "mixed":
                from EasyFEA import Models

                self.spec = {k: (dict(v) if isinstance(v, dict) else v) for k, v in cfg["spec"].items()}
                self.sim = mixed_class()(mesh, Models.Thermal(1.0), self.spec)
            else:
                self.params = dict(cfg["params"])
                self.model = simlib.make_model(cfg["kind"], self.params)
                self.sim = simlib.make_sim(self.actor, mesh, self.model)
                self._wrap()
        self.last_K = {}

    def _wrap(self):
        sim = self.sim
        orig = sim.Construct_local_matrix_system
        rec = self.recorded

        def wrapped(problemType, *a, **k):
            out = orig(problemType, *a, **k)
            rec[simlib.pt_key(problemType)] = [(g.connect, tuple(None if x is None else np.array(x) for x in t)) for g, t in out.items()]
            return out

        sim.Construct_local_matrix_system = wrapped

    def close(self):
        self.alloc.close()
        self.solver.close()
        self.clock.close()

    # ------------------------------------------------------------------
    def _pts(self):
        return list(self.sim.Get_problemTypes())

    def gen_op(self, rng, frng):
        w = {"assemble": 6, "values": 2, "slots": 1.5, "complex": 0.5, "lagrange": 1.5, "dirichlet": 1.5, "bc_init": 0.7,
             "setmesh": 1, "permute": 1.5, "coord": 1, "kcmf": 2, "need_update": 0.5, "save_set_iter": 0.7}
        if self.actor == "mixed" and (self.cfg["spec"].get("patch") or {}).get("travel"):
            w["move_patch"] = 2.5
        if self.actor != "mixed":
            w["slots"] = w["complex"] = 0
        if self.actor == "PhaseField":
            w["kcmf"] = 1
        names = sorted(w)
        p = np.array([w[k] for k in names], dtype=float)
        name = names[int(rng.choice(len(names), p=p / p.sum()))]
        op = {"op": name}
        pts = self._pts()
        if name in ("assemble", "kcmf"):
            op["pt"] = int(rng.integers(len(pts)))
            op["_mut"] = False
            if self.cfg.get("faults") and frng.random() < 0.35:
                # the k-th sparse construction of this assembly fails: K (and C, M) may already be built, maps cached
                op["fault"] = {"seam": "alloc", "kind": "memerr", "k": int(frng.integers(1, 7))}
        elif name == "values":
            op["vseed"] = int(rng.integers(1 << 30))
        elif name == "slots":
            dims = self.spec["dims"] if self.actor == "mixed" else [self.dim]
            op["key"] = f"{dims[int(rng.integers(len(dims)))]}:{int(rng.integers(4))}"
            op["present"] = bool(rng.integers(2))
        elif name in ("lagrange", "dirichlet"):
            op["pt"] = int(rng.integers(len(pts)))
            op["aseed"] = int(rng.integers(1 << 30))
        elif name == "setmesh":
            op["mesh"] = int(rng.integers(len(self.raws)))
        elif name in ("permute", "coord"):
            op["aseed"] = int(rng.integers(1 << 30))
        return op

    # ------------------------------------------------------------------
    def _cache_keys(self):
        d = self.sim.__dict__.get(CACHE_ATTR, {})
        return {k for k in d if k[0].endswith("Get_csr_map")}

    def _check_assembly(self, pt, mats, what):
        sim = self.sim
        key = simlib.pt_key(pt)
        groups = sim.last[key] if self.actor == "mixed" else self.recorded[key]
        dof_n = sim.Get_dof_n(pt)
        Ndof = sim.mesh.Nn * dof_n + sim._Bc_Lagrange_dim(pt)
        for si, (nm, A) in enumerate(zip("KCMF", mats)):
            isM = si < 3
            shape = (Ndof, Ndof) if isM else (Ndof, 1)
            if A.shape != shape:
                raise Violation("assembly-shape", f"{what}: {nm} has shape {A.shape}, expected {shape}")
            cplx = any(t[si] is not None and np.iscomplexobj(t[si]) for _, t in groups)
            if isM:
                ref = refs.ref_scatter_matrix([(c, t[si]) for c, t in groups], dof_n, Ndof, dtype=complex if cplx else float)
            else:
                ref = refs.ref_scatter_vector([(c, t[si]) for c, t in groups], dof_n, Ndof, dtype=complex if cplx else float)
            got = A.toarray()
            if cplx and not np.iscomplexobj(got):
                raise Violation("assembly-dropped-imaginary-part", f"{what}: {nm} is real although complex element values were supplied")
            scale = max(refs.maxabs(ref), 1e-300)
            err = refs.maxabs(got - ref)
            if not err <= 1e-12 * scale:
                r, c = np.unravel_index(np.argmax(np.abs(got - ref)), ref.shape)
                raise Violation("assembly-not-scatter-add", f"{what}: {nm} ({key}) differs from the loop summation: max|diff|={err:.3e} at ({r},{c}), max|ref|={scale:.3e}")
            # canonical CSR: sorted, duplicate-free indices
            A = A.tocsr()
            for i in range(A.shape[0]):
                idx = A.indices[A.indptr[i]:A.indptr[i + 1]]
                if idx.size > 1 and not np.all(np.diff(idx) > 0):
                    raise Violation("assembly-not-canonical", f"{what}: row {i} of {nm} has unsorted or duplicated column indices")
            self.ctx.checked()
        return Ndof

    def apply(self, op):
        ctx = self.ctx
        sim = self.sim
        name = op["op"]
        pts = self._pts()

        if name in ("assemble", "kcmf"):
            if op["pt"] >= len(pts):
                return "skip"
            pt = pts[op["pt"]]
            if name == "kcmf" and self.actor == "PhaseField" and self.n_lagrange:
                # no public API attaches Lagrange conditions to a phase-field simulation; its own Get_K_C_M_F keeps
                # per-problem flags and whether it notices a size change is a staleness question (C14), not C03's
                return "skip"
            before = self._cache_keys()
            fault = op.get("fault") if self.cfg.get("faults") else None
            use_assembly = name == "assemble" or len(pts) > 1 and self.actor == "mixed"
            if not use_assembly and not sim.needUpdate:
                ctx.probe("kcmf_served_from_cache")
                return "cached"  # nothing assembled: staleness of this path is C14's business

            def call():
                with ctx.sut():
                    return sim.Assembly(pt) if use_assembly else sim.Get_K_C_M_F(pt)

            if fault:
                # an assembly interrupted by a failing allocation, then repeated: the repeat is what gets checked
                self.alloc.arm(fault)
                failed = None
                try:
                    call()
                except SutError as e:
                    failed = e
                finally:
                    pending = self.alloc.disarm()
                if not pending:
                    if failed is None:
                        raise Violation("fault-swallowed", "an injected allocation failure did not surface from the assembly")
                    ctx.probe("assembly_interrupted_then_repeated")
                    if not use_assembly and not sim.needUpdate:
                        raise Violation("interrupted-assembly-marked-done", "Get_K_C_M_F raised part-way but the simulation no longer asks for an update: the next read would be served from half-built matrices")
                elif failed is not None:
                    raise Violation("assembly-raises", f"{name}({simlib.pt_key(pt)}) raised {failed}", failed.site)
            try:
                mats = call()
            except SutError as e:
                raise Violation("assembly-raises", f"{name}({simlib.pt_key(pt)}) raised {e}", e.site)
            after = self._cache_keys()
            ctx.probe("csr_map_rebuilt" if after - before else "csr_map_reused")
            if self.actor == "PhaseField" and name == "kcmf":
                # PhaseField.Get_K_C_M_F only hands out the slots its problem uses
                key = simlib.pt_key(pt)
                if key not in self.recorded:
                    return "cached"
                full = [mats[0], None, None, mats[3]] if key == "damage" else [mats[0], None, None, None]
                groups = self.recorded[key]
                chk = []
                for si, A in enumerate(full):
                    chk.append(A)
                # compare only K (and F for damage)
                self._check_partial(pt, full, "Get_K_C_M_F")
                return "ok"
            self._check_assembly(pt, mats, name)
            self.last_K[simlib.pt_key(pt)] = (mats[0].toarray(), self.perm, self.mesh_i, self._value_state())
            return "ok"

        if name == "values":
            if self.actor == "mixed":
                self.spec["vseed"] = op["vseed"]
                with ctx.sut():
                    sim.Need_Update()
            else:
                rng = arr_rng(op["vseed"])
                pn, pv = simlib.gen_param_write(self.cfg["kind"], rng)
                with ctx.sut():
                    simlib.write_param(self.model, self.cfg["kind"], self.params, pn, pv)
            return "ok"

        if name == "slots":
            if self.actor != "mixed" or int(op["key"].split(":")[0]) not in self.spec["dims"]:
                return "skip"
            self.spec["slots"][op["key"]] = op["present"]
            with ctx.sut():
                sim.Need_Update()
            return "ok"

        if name == "complex":
            if self.actor != "mixed":
                return "skip"
            self.spec["complex"] = not self.spec.get("complex")
            with ctx.sut():
                sim.Need_Update()
            return "ok"

        if name in ("lagrange", "dirichlet"):
            if op["pt"] >= len(pts):
                return "skip"
            pt = pts[op["pt"]]
            rng = arr_rng(op["aseed"])
            with ctx.sut():
                Nn = sim.mesh.Nn
                un = sim.Get_unknowns(pt)
                nodes = np.sort(rng.choice(Nn, size=min(Nn, 2), replace=False))
                u = [un[int(rng.integers(len(un)))]]
                if name == "dirichlet":
                    sim.add_dirichlet(nodes, [0.0], u, pt) if self.actor != "mixed" else sim.add_dirichlet(nodes, [0.0], u, pt)
                else:
                    from EasyFEA.FEM import LagrangeCondition

                    dofs = sim.Bc_dofs_nodes(nodes, u, pt)
                    sim._Bc_Add_Lagrange(LagrangeCondition(pt, nodes, dofs, u, np.array([0.0]), np.array([1.0, -1.0]), "link"))
                    self.n_lagrange += 1
                    ctx.probe("lagrange_added")
            return "ok"

        if name == "bc_init":
            with ctx.sut():
                sim.Bc_Init()
                sim.Need_Update()
            self.n_lagrange = 0
            return "ok"

        if name == "setmesh":
            if op["mesh"] >= len(self.raws):
                return "skip"
            if self.actor == "WeakForms":
                return "skip"
            with ctx.sut():
                sim.mesh = meshlib.build(self.raws[op["mesh"]])
            self.mesh_i = op["mesh"]
            self.perm = None
            self.jittered = False
            self.n_lagrange = 0
            ctx.probe("mesh_replaced")
            return "ok"

        if name == "permute":
            raw = self.raws[self.mesh_i]
            perm = arr_rng(op["aseed"]).permutation(raw.Nn)
            with ctx.sut():
                sim.mesh = meshlib.build(raw, perm=perm)
            self.n_lagrange = 0
            old = dict(self.last_K)
            self.perm = perm
            self.jittered = False
            ctx.probe("mesh_permuted")
            # renumbering permutes the global system and changes nothing else
            for pt in pts:
                key = simlib.pt_key(pt)
                if key not in old or old[key][1] is not None or old[key][2] != self.mesh_i or old[key][3] != self._value_state():
                    continue
                if self.actor == "PhaseField":
                    continue  # its operators depend on the (reset) fields
                try:
                    with ctx.sut():
                        mats = sim.Assembly(pt)
                except SutError as e:
                    raise Violation("assembly-raises", f"Assembly after renumbering raised {e}", e.site)
                Ndof0 = self._check_assembly(pt, mats, "assemble after renumbering")
                dof_n = sim.Get_dof_n(pt)
                K0 = old[key][0]
                n0 = raw.Nn * dof_n
                pd = (perm[:, None] * dof_n + np.arange(dof_n)[None, :]).ravel()
                Kp = mats[0].toarray()[:n0, :n0]
                back = Kp[np.ix_(pd, pd)]
                K0 = K0[:n0, :n0]
                scale = max(refs.maxabs(K0), 1e-300)
                if not refs.maxabs(back - K0) <= 1e-12 * scale:
                    raise Violation("renumbering-not-a-permutation", f"K of the renumbered mesh is not P K P^T ({key}): max|diff|={refs.maxabs(back - K0):.3e}")
                ctx.checked()
            return "ok"

        if name == "coord":
            with ctx.sut():
                X = sim.mesh.coord
                rng = arr_rng(op["aseed"])
                J = rng.uniform(-1, 1, X.shape) * 0.02 * np.ptp(X, axis=0).max()
                if self.dim == 2:
                    J[:, 2] = 0
                sim.mesh.coord = X + J
            self.jittered = True
            return "ok"

        if name == "need_update":
            with ctx.sut():
                sim.Need_Update()
            return "ok"

        if name == "move_patch":
            # the user-built boundary patches move along the boundary (a travelling load / contact zone): other groups of
            # the same element type and size contribute from the next assembly on
            sim.patch_shift = getattr(sim, "patch_shift", 0) + 1
            with ctx.sut():
                sim.Need_Update()
            ctx.probe("user_patches_moved")
            return "ok"

        if name == "save_set_iter":
            if self.actor == "PhaseField":
                return "skip"
            with ctx.sut():
                sim.Save_Iter()
                sim.Set_Iter(sim.Niter - 1)
            return "ok"

        raise ValueError(name)

    def _check_partial(self, pt, full, what):
        """PhaseField getter: check the slots that were handed out."""
        sim = self.sim
        key = simlib.pt_key(pt)
        groups = self.recorded[key]
        dof_n = sim.Get_dof_n(pt)
        Ndof = sim.mesh.Nn * dof_n + sim._Bc_Lagrange_dim(pt)
        for si, A in enumerate(full):
            if A is None:
                continue
            if si < 3:
                ref = refs.ref_scatter_matrix([(c, t[si]) for c, t in groups], dof_n, Ndof)
            else:
                ref = refs.ref_scatter_vector([(c, t[si]) for c, t in groups], dof_n, Ndof)
            got = A.toarray()
            if got.shape != ref.shape:
                raise Violation("assembly-shape", f"{what}: slot {si} has shape {got.shape}, expected {ref.shape}")
            scale = max(refs.maxabs(ref), 1e-300)
            if not refs.maxabs(got - ref) <= 1e-12 * scale:
                raise Violation("assembly-not-scatter-add", f"{what}: slot {'KCMF'[si]} ({key}) differs from the loop summation: {refs.maxabs(got - ref):.3e}")
            self.ctx.checked()

    def _value_state(self):
        if self.jittered:
            return ("jittered", self.ctx.mutations)
        if self.actor == "mixed":
            return (self.spec["vseed"], tuple(sorted(self.spec["slots"].items())), bool(self.spec.get("complex")), getattr(self.sim, "patch_shift", 0))
        return tuple(sorted((k, str(v)) for k, v in self.params.items()))

    def observe(self):
        return [self.mesh_i, self.n_lagrange, None if self.perm is None else np.asarray(self.perm)]

    def abstract_state(self):
        return (self.actor, self.mesh_i, self.perm is not None, self.n_lagrange, len(self._cache_keys()), bool(self.sim.needUpdate))
