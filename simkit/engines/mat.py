"""Engine `mat` (C19): integration of history-dependent materials is admissible, dissipative, consistent and pure.

Actors: (a) Behavior.Integrate driven directly on (Ne, nPg) = (2, 3) arrays so that the points of one element
are in different regimes; (b) a second behaviour with solver="newton" run in lock-step against solver="auto";
(c) Simulations.InElastic on a tiny mesh, with injected back-end failures inside the Newton loop.
Strain histories are sequences of increments / reversals / unloads / holds with commit, no-commit, repeat and
retry-with-smaller-step call patterns.
"""

import numpy as np

from ..kernel import World, Violation, Discard, SutError, arr_rng
from .. import meshlib, simlib, refs, seams

IDX_2D = [0, 1, 5]
ZZ = 2


def build_behavior(c: dict, solver: str = "auto"):
    from EasyFEA import Models

    I = Models.InElastic
    el = Models.Elastic.Isotropic(3, E=c["E"], v=c["v"])
    ys = None
    if c["yield"] == "VonMises":
        ys = I.Yield.VonMises(c["sigma_y"])
    elif c["yield"] == "Hill":
        ys = I.Yield.Hill(c["sigma_y"], *c["hill"])
    elif c["yield"] == "DruckerPrager":
        ys = I.Yield.DruckerPrager(c["sigma_y"], c["dp_eta"])
    hd = None
    if ys is not None:
        h = c["hardening"]
        if h[0] == "Linear":
            hd = I.IsotropicHardening.Linear(h[1])
        elif h[0] == "Voce":
            hd = I.IsotropicHardening.Voce(h[1], h[2])
        elif h[0] == "Swift":
            hd = I.IsotropicHardening.Swift(h[1], h[2])
    kin = None
    if ys is not None and c["kinematic"]:
        kin = [I.KinematicHardening.ArmstrongFrederick(C, g) for C, g in c["kinematic"]]
    rate = None
    if ys is not None and c["rate"]:
        r = c["rate"]
        rate = I.ViscoPlastic.Norton(r[1], r[2], c["sigma_y"]) if r[0] == "Norton" else I.ViscoPlastic.Perzyna(r[1], r[2], c["sigma_y"])
    branches = [I.ViscoElastic.Maxwell(g, tau) for g, tau in c["branches"]]
    pieces = {"yield": ys, "hardening": hd, "kinematic": kin or [], "rate": rate}
    b = I.Behavior(c["dim"], el, yieldSurface=ys, hardening=hd, kinematic=kin, rate=rate, branches=branches,
                   thickness=1.0, planeStress=c["planeStress"], solver=solver)
    return b, pieces


def gen_material(rng, tier):
    mode = ["3D", "planeStrain", "planeStress"][int(rng.integers(3))]
    c = {"dim": 3 if mode == "3D" else 2, "planeStress": mode == "planeStress",
         "E": float(np.round(10 ** rng.uniform(2, 3.3), 2)), "v": float(np.round(rng.uniform(0.0, 0.4), 3))}
    y = ["none", "VonMises", "VonMises", "Hill", "DruckerPrager"][int(rng.integers(5))]
    c["yield"] = y
    c["sigma_y"] = float(np.round(rng.uniform(0.5, 3.0), 3))
    c["hill"] = np.round(rng.uniform(0.3, 0.7, 3), 3).tolist() + np.round(rng.uniform(1.0, 2.0, 3), 3).tolist()
    c["dp_eta"] = float(np.round(rng.uniform(0.02, 0.15), 3))
    h = ["none", "Linear", "Voce", "Swift"][int(rng.integers(4))]
    c["hardening"] = {"none": ["none"], "Linear": ["Linear", float(np.round(rng.uniform(5, 200), 1))],
                      "Voce": ["Voce", float(np.round(rng.uniform(0.5, 3), 2)), float(np.round(rng.uniform(5, 200), 1))],
                      "Swift": ["Swift", float(np.round(rng.uniform(5, 50), 1)), float(np.round(rng.uniform(0.1, 0.6), 2))]}[h]
    nk = int(rng.choice([0, 0, 1, 2]))
    c["kinematic"] = [[float(np.round(rng.uniform(10, 300), 1)), float(np.round(10 ** rng.uniform(0, 3.3), 1)) if rng.random() < 0.5 else 0.0] for _ in range(nk)] if y != "none" else []
    c["rate"] = None
    if y != "none" and rng.random() < 0.2:
        c["rate"] = [["Norton", "Perzyna"][int(rng.integers(2))], float(np.round(10 ** rng.uniform(-2, 2), 4)), float(np.round(rng.uniform(1, 3), 1))]
    nb = int(rng.choice([0, 0, 0, 1, 2]))
    gs = rng.uniform(0.1, 0.4, nb)
    c["branches"] = [[float(np.round(g, 3)), float(np.round(10 ** rng.uniform(-1, 1), 3))] for g in gs]
    return c


class MatWorld(World):
    PROPERTY = "C19"
    ENGINE = "mat"
    ASSUMPTIONS = [
        "admissibility / monotonicity / traceless flow / dissipation are checked for rate-independent configurations (no rate law, no Maxwell branch); tangent, purity, solver agreement and finiteness for all",
        "the dissipation inequality uses the code's own free energy and is skipped with Armstrong-Frederick recall (non-associative), where only dGamma >= 0 is demanded",
        "points the code flags as non-converged are excluded and counted; the tangent is compared with a central difference only where both perturbed states stay in the same regime",
    ]

    @classmethod
    def gen_config(cls, rng, tier, faults):
        actor = ["point", "point", "twin", "simu"][int(rng.integers(4))]
        c = gen_material(rng, tier)
        if actor == "simu":
            c["dim"] = 2
            c["rate"] = None
            c["branches"] = []
        if actor == "twin":
            # the spectral path applies to quadratic surfaces without kinematic hardening / branches
            c["yield"] = ["VonMises", "Hill"][int(rng.integers(2))]
            c["kinematic"] = []
            c["branches"] = []
        cfg = {"actor": actor, "mat": c, "nops": int(rng.integers(10, 41)), "faults": bool(faults), "mesh": ["quad4_a", "tri3_a"][int(rng.integers(2))]}
        return cfg

    def __init__(self, cfg, ctx):
        super().__init__(cfg, ctx)
        import EasyFEA
        from EasyFEA.Simulations import Solvers

        self.clock = seams.ClockSeam(ctx, EasyFEA)
        self.solver = seams.SolverSeam(ctx, Solvers)
        self.c = cfg["mat"]
        self.actor = cfg["actor"]
        with ctx.sut():
            self.beh, self.pieces = build_behavior(self.c)
            self.twin = build_behavior(self.c, solver="newton")[0] if self.actor == "twin" else None
        self.rate_indep = self.c["rate"] is None and not self.c["branches"]
        self.has_state = self.c["yield"] != "none" or bool(self.c["branches"])
        self.nstrain = 6 if self.c["dim"] == 3 else 3
        self.eps_y = self.c["sigma_y"] / self.c["E"]
        self.Ne, self.nPg = 2, 3
        from EasyFEA.FEM import FeArray

        self.FeArray = FeArray
        with ctx.sut():
            self.zOld = self.beh.State_zeros(self.Ne, self.nPg)
        self.eps = np.zeros((self.Ne, self.nPg, self.nstrain))
        self.trial = None  # (eps, z) of the last integration
        self.dirn = None
        self.steps = 0
        if self.actor == "simu":
            with ctx.sut():
                from EasyFEA import Simulations

                raw = meshlib.library()[cfg["mesh"]]
                self.sim = Simulations.InElastic(meshlib.build(raw), self.beh)
                self.tags = simlib.boundary_tags(raw)
            self.load = 0.0
            self._sim_load(0.0)

    def close(self):
        self.solver.close()
        self.clock.close()

    # ------------------------------------------------------------------ generation
    def gen_op(self, rng, frng):
        if self.actor == "simu":
            w = {"sim_load": 3, "sim_solve": 4, "sim_save": 2, "sim_set_iter": 0.7 if self.sim.Niter else 0, "sim_result": 1}
            if self.sim.Niter == 0:
                w["sim_save"] = 4  # a snapshot of the virgin state (saved before anything was integrated) to roll back to
        else:
            w = {"strain": 6, "commit": 3, "twice": 1, "tangent": 1.5, "retry_smaller": 0.7}
        names = sorted(w)
        p = np.array([w[k] for k in names], dtype=float)
        name = names[int(rng.choice(len(names), p=p / p.sum()))]
        op = {"op": name}
        if name == "strain":
            op.update(mode=["inc", "inc", "reverse", "unload", "hold", "turn"][int(rng.integers(6))], aseed=int(rng.integers(1 << 30)),
                      mag=float(np.round(rng.uniform(0.1, 3.0), 3)), dt=float(np.round(10 ** rng.uniform(-2, 1), 4)), commit=bool(rng.random() < 0.6))
        elif name == "sim_load":
            op["val"] = float(np.round(rng.uniform(-4, 4) * self.eps_y, 6))
        elif name == "sim_set_iter":
            op["i"] = int(rng.integers(self.sim.Niter))
        elif name == "sim_solve" and self.cfg.get("faults") and frng.random() < 0.4:
            op["fault"] = {"seam": "solver", "kind": ["memerr", "singular"][int(frng.integers(2))], "k": int(frng.integers(1, 5))}
        if name in ("twice", "tangent", "sim_result"):
            op["_mut"] = False
        return op

    # ------------------------------------------------------------------ material-point helpers
    def _next_strain(self, op):
        rng = arr_rng(op["aseed"])
        n = self.nstrain
        if self.dirn is None or op["mode"] == "turn":
            d = rng.normal(size=(self.Ne, self.nPg, n))
            d /= np.linalg.norm(d, axis=-1, keepdims=True)
            self.dirn = d
        step = op["mag"] * self.eps_y * rng.uniform(0.2, 1.0, (self.Ne, self.nPg, 1))
        if op["mode"] in ("inc", "turn"):
            return self.eps + step * self.dirn
        if op["mode"] == "reverse":
            self.dirn = -self.dirn
            return self.eps + step * self.dirn
        if op["mode"] == "unload":
            return self.eps * rng.uniform(0.0, 0.9)
        return self.eps.copy()  # hold

    def _integrate(self, beh, eps, dt, withTangent=True):
        F = self.FeArray
        zOld = self.zOld
        before = np.array(zOld).tobytes()
        with self.ctx.sut():
            sig, C, z, conv = beh.Integrate(F.asfearray(eps.copy()), zOld, dt, F.asfearray(self.eps.copy()), withTangent=withTangent)
        if np.array(zOld).tobytes() != before:
            raise Violation("integrate-not-pure", "Integrate modified the committed state it was given")
        self.ctx.checked()
        return np.asarray(sig), (None if C is None else np.asarray(C)), z, np.asarray(conv, dtype=bool)

    def _p(self, z):
        lay = self.beh.layout
        if "p" not in lay.slots:
            return None
        return np.asarray(z)[..., lay.slots["p"]][..., 0]

    def _epsp(self, z):
        lay = self.beh.layout
        if "eps_p" not in lay.slots:
            return None
        return np.asarray(z)[..., lay.slots["eps_p"]]

    def _neutral(self, eps, dt, z):
        """Points sitting on the yield surface without flowing (neutral loading): the tangent is not unique there."""
        if self.pieces["yield"] is None:
            return np.zeros((self.Ne, self.nPg), dtype=bool)
        F = self.FeArray
        beh = self.beh
        with self.ctx.sut():
            eps6 = beh.Compute_strain_6d(F.asfearray(eps.copy()), self.zOld, dt)
            sig6 = np.asarray(beh.Compute_sigma(eps6, z))
            X = beh.Compute_back_stress(z)
            X = np.asarray(X) if not np.isscalar(X) else 0.0
            p1 = self._p(z)
            hd = self.pieces["hardening"]
            R = np.asarray(hd.R(F.asfearray(p1))) if hd is not None else 0.0
            f = np.asarray(self.pieces["yield"].f(F.asfearray(sig6 - X), F.asfearray(R) if not np.isscalar(R) else R))
        dp = p1 - self._p(self.zOld)
        scale = max(self.c["sigma_y"], refs.maxabs(sig6))
        return (np.abs(dp) <= 1e-9 * self.eps_y) & (f > -1e-5 * scale)

    def _check_point(self, eps, dt, sig, C, z, conv, what):
        """Invariants of one integration from the committed state (self.eps, self.zOld)."""
        ctx, beh, c = self.ctx, self.beh, self.c
        F = self.FeArray
        ok = conv
        if not ok.all():
            ctx.probe("points_not_converged", int((~ok).sum()))
        if not np.all(np.isfinite(sig[ok])):
            raise Violation("stress-not-finite", f"{what}: NaN/Inf in the returned stress")
        scale = max(c["sigma_y"], refs.maxabs(sig))
        if not self.has_state:
            # a material without internal variables is exactly linear elastic
            with ctx.sut():
                eps6 = np.asarray(beh.Compute_strain_6d(F.asfearray(eps.copy()), self.zOld, dt))
                Cel = np.asarray(beh.C)
            ref6 = np.einsum("ij,epj->epi", Cel, eps6)
            ref = ref6 if c["dim"] == 3 else ref6[..., IDX_2D]
            if not refs.maxabs(sig - ref) <= 1e-10 * max(refs.maxabs(ref), 1e-300):
                raise Violation("not-linear-elastic", f"{what}: stress of a material without internal variables differs from C:eps by {refs.maxabs(sig - ref):.3e}")
            ctx.checked()
            return
        try:
            with ctx.sut():
                eps6 = beh.Compute_strain_6d(F.asfearray(eps.copy()), self.zOld, dt)
                sig6 = np.asarray(beh.Compute_sigma(eps6, z))
                X = beh.Compute_back_stress(z)
                X = np.asarray(X) if not np.isscalar(X) else 0.0
        except SutError as e:
            raise Violation("state-recomputation-raises", f"{what}: recomputing the strain/stress of the state Integrate just returned raised {e}", e.site)
        eps6 = np.asarray(eps6)
        if c["planeStress"]:
            if not np.max(np.abs(sig6[..., ZZ][ok]), initial=0.0) <= 1e-5 * scale:
                raise Violation("plane-stress-violated", f"{what}: |sigma_zz| = {np.max(np.abs(sig6[..., ZZ][ok])):.3e} (scale {scale:.3e})")
            ctx.checked()
        p1, p0 = self._p(z), self._p(self.zOld)
        if p1 is not None:
            dp = (p1 - p0)[ok]
            if dp.size and dp.min() < -1e-9 * max(self.eps_y, 1e-300):
                raise Violation("plastic-multiplier-negative", f"{what}: accumulated plastic strain decreased by {-dp.min():.3e}")
            ctx.checked()
        if not self.rate_indep or self.pieces["yield"] is None:
            return
        ys, hd = self.pieces["yield"], self.pieces["hardening"]
        with ctx.sut():
            R = np.asarray(hd.R(F.asfearray(p1))) if hd is not None else 0.0
            f = np.asarray(ys.f(F.asfearray(sig6 - X), F.asfearray(R) if not np.isscalar(R) else R))
        if f[ok].size and f[ok].max() > 1e-6 * scale:
            raise Violation("stress-outside-yield-surface", f"{what}: max f(sigma, R) = {f[ok].max():.3e} (scale {scale:.3e})")
        ctx.checked()
        if c["yield"] in ("VonMises", "Hill"):
            ep = self._epsp(z)
            tr = ep[..., 0] + ep[..., 1] + ep[..., 2]
            if np.max(np.abs(tr[ok]), initial=0.0) > 1e-8 * max(refs.maxabs(ep), self.eps_y):
                raise Violation("plastic-strain-not-traceless", f"{what}: |tr eps_p| = {np.max(np.abs(tr[ok])):.3e}")
            ctx.checked()
        if all(g == 0.0 for _, g in c["kinematic"]):
            with ctx.sut():
                eps6_old = np.asarray(beh.Compute_strain_6d(F.asfearray(self.eps.copy()), self.zOld, dt)) if not c["planeStress"] else None
                psi1 = np.asarray(beh.Compute_psi(F.asfearray(eps6), z))
            if eps6_old is None:
                # plane stress: eps_zz of the committed state is the one that made sigma_zz vanish then
                eps6_old = self._eps6_committed
            with ctx.sut():
                psi0 = np.asarray(beh.Compute_psi(F.asfearray(eps6_old), self.zOld))
            D = np.einsum("epi,epi->ep", sig6, eps6 - eps6_old) - (psi1 - psi0)
            escale = scale * max(refs.maxabs(eps6 - eps6_old), 1e-3 * self.eps_y)
            if D[ok].size and D[ok].min() < -1e-6 * escale:
                raise Violation("negative-dissipation", f"{what}: min(sigma:deps - dpsi) = {D[ok].min():.3e} (scale {escale:.3e})")
            ctx.checked()
            ctx.probe("dissipation_checked")
        self._last_eps6 = eps6

    # ------------------------------------------------------------------ apply
    def apply(self, op):
        try:
            return self._apply(op)
        except SutError as e:
            # every call the harness makes on the state Integrate returned is a read of a public method with the
            # arguments Integrate itself used: it has no reason to raise
            raise Violation("state-recomputation-raises", f"{op['op']}: re-evaluating the returned state raised {e}", e.site)

    def _apply(self, op):
        ctx = self.ctx
        name = op["op"]
        if name.startswith("sim_"):
            if self.actor != "simu":
                return "skip"
            return self._apply_sim(op)
        if self.actor == "simu":
            return "skip"
        beh = self.beh

        if name == "strain":
            eps = self._next_strain(op)
            dt = op["dt"] if not self.rate_indep else (op["dt"] if op["mode"] == "hold" else 0.0)
            if self.c["rate"] is not None and dt <= 0:
                dt = op["dt"]
            try:
                sig, C, z, conv = self._integrate(beh, eps, dt)
            except SutError as e:
                if isinstance(e.exc, AssertionError) and "did not converge" in str(e.exc):
                    ctx.probe("local_solve_not_converged")
                    return "noconv"
                raise Violation("integrate-raises", f"Integrate raised {e}", e.site)
            if not hasattr(self, "_eps6_committed"):
                self._eps6_committed = np.zeros((self.Ne, self.nPg, 6))
            self._check_point(eps, dt, sig, C, z, conv, "Integrate")
            if self.twin is not None:
                try:
                    s2, C2, z2, conv2 = self._integrate(self.twin, eps, dt)
                except SutError as e:
                    raise Violation("solvers-disagree", f"the Newton local solver raised where the spectral one succeeded: {e}", e.site)
                both = conv & conv2
                smooth = both & ~self._neutral(eps, dt, z)
                sc = max(self.c["sigma_y"], refs.maxabs(sig))
                if not np.max(np.abs((sig - s2)[both]), initial=0.0) <= 1e-6 * sc:
                    raise Violation("solvers-disagree", f"stress from solver='auto' and 'newton' differ by {np.max(np.abs((sig - s2)[both])):.3e} (scale {sc:.3e})")
                if C is not None and C2 is not None:
                    cs = max(refs.maxabs(C), 1e-300)
                    if not np.max(np.abs((C - C2)[smooth]), initial=0.0) <= 1e-4 * cs:
                        raise Violation("solvers-disagree", f"tangents from solver='auto' and 'newton' differ by {np.max(np.abs((C - C2)[smooth])):.3e} (scale {cs:.3e})")
                ctx.checked()
                ctx.probe("solvers_compared")
            self.trial = (eps, z, dt, getattr(self, "_last_eps6", None))
            self.steps += 1
            if op.get("commit"):
                self._commit()
            return "ok"

        if name == "commit":
            if self.trial is None:
                return "skip"
            self._commit()
            return "ok"

        if name == "twice":
            if self.trial is None:
                return "skip"
            eps, _, dt, _ = self.trial
            try:
                a = self._integrate(beh, eps, dt)
                b = self._integrate(beh, eps, dt)
            except SutError as e:
                return "exc"
            for x, y, nm in zip(a, b, ("stress", "tangent", "state", "converged")):
                if x is None:
                    continue
                if np.asarray(x).tobytes() != np.asarray(y).tobytes():
                    raise Violation("integrate-not-repeatable", f"two Integrate calls with the same input returned different {nm}")
            ctx.checked()
            return "ok"

        if name == "tangent":
            if self.trial is None:
                return "skip"
            return self._check_tangent()

        if name == "retry_smaller":
            # shrink the step and retry from the committed state: still pure, still admissible
            if self.trial is None:
                return "skip"
            eps, _, dt, _ = self.trial
            half = self.eps + 0.5 * (eps - self.eps)
            try:
                sig, C, z, conv = self._integrate(beh, half, dt)
            except SutError:
                return "exc"
            self._check_point(half, dt, sig, C, z, conv, "Integrate (half step)")
            return "ok"

        raise ValueError(name)

    def _commit(self):
        eps, z, dt, eps6 = self.trial
        self.zOld = self.FeArray.asfearray(np.array(z).copy())
        self.eps = np.array(eps).copy()
        if eps6 is not None:
            self._eps6_committed = np.array(eps6).copy()
        self.trial = None
        self.ctx.probe("state_committed")

    def _check_tangent(self):
        ctx, beh = self.ctx, self.beh
        eps, z, dt, _ = self.trial
        try:
            sig, C, z0, conv = self._integrate(beh, eps, dt)
        except SutError:
            return "exc"
        if C is None:
            return "skip"
        # the step must dominate the solver tolerances (plane stress stops at |sigma_zz| < ~1e-9*C: a smaller step
        # would differentiate the tolerance, not the response) and stay small against the yield strain
        h0 = (1e-2 if self.c["planeStress"] else 1e-4) * self.eps_y
        p_ref = self._p(z0)
        p_old = self._p(self.zOld)
        tol = 2e-3 if self.c["planeStress"] else 5e-4
        best = None
        # rate laws and Maxwell branches make the response strongly curved: when the first difference quotient
        # disagrees, the step is refined twice (a truncation error falls as h^2, a wrong tangent does not fall)
        for h in ((h0,) if self.rate_indep else (h0, h0 / 4, h0 / 16)):
            good = conv & ~self._neutral(eps, dt, z0)
            num = np.zeros_like(C)
            for j in range(self.nstrain):
                e = np.zeros(self.nstrain)
                e[j] = h
                try:
                    sp, _, zp, cp = self._integrate(beh, eps + e, dt, withTangent=False)
                    sm, _, zm, cm = self._integrate(beh, eps - e, dt, withTangent=False)
                except SutError:
                    return "exc"
                num[..., :, j] = (sp - sm) / (2 * h)
                good &= cp & cm
                if p_ref is not None:
                    # same regime on both sides (elastic or flowing), otherwise the difference straddles a kink
                    flow = lambda zz: (self._p(zz) - p_old) > 1e-14
                    good &= (flow(zp) == flow(zm)) & (flow(zp) == flow(z0))
            if not good.any():
                if best is None:
                    return "no-smooth-point"
                break
            cs = max(refs.maxabs(np.asarray(C)[good]), 1e-300)
            err = np.max(np.abs((C - num)[good]))
            if best is None or err / cs < best[0] / best[1]:
                best = (err, cs)
            if err <= tol * cs:
                break
        err, cs = best
        if not err <= tol * cs:
            raise Violation("tangent-not-derivative", f"algorithmic tangent differs from the central difference of the returned stress by {err:.3e} (scale {cs:.3e}) [{self.c['yield']}, {self.c['hardening'][0]}, kin {len(self.c['kinematic'])}, {'plane stress' if self.c['planeStress'] else self.c['dim']}]")
        ctx.checked()
        ctx.probe("tangent_checked")
        if self.c["planeStress"]:
            self._check_condensed_tangent(eps, dt, C, z0, conv)
        return "ok"

    def _check_condensed_tangent(self, eps, dt, C2, z0, conv):
        """Plane stress only.  The returned in-plane tangent must be the static condensation (zz row AND column) of the
        tangent a 3D behaviour made of the same pieces returns at the 6-component strain the plane-stress solve found:
        C_in - c_iz c_zi / c_zz, formed here with dense numpy.  Finite differences (above) are too coarse in plane stress
        to see an error of the order of the tangent's asymmetry."""
        ctx, beh, F = self.ctx, self.beh, self.FeArray
        if getattr(self, "beh3", None) is None:
            try:
                with ctx.sut():
                    self.beh3, _ = build_behavior(dict(self.c, dim=3, planeStress=False))
            except (SutError, TypeError):
                self.beh3 = False
        if not self.beh3:
            return
        try:
            with ctx.sut():
                eps6 = beh.Compute_strain_6d(F.asfearray(eps.copy()), self.zOld, dt)
                out = self.beh3.Integrate(F.asfearray(np.asarray(eps6).copy()), self.zOld, dt)
        except SutError:
            ctx.probe("condensed_tangent_reference_unavailable")
            return
        C3 = np.asarray(out[1]) if len(out) > 1 and out[1] is not None else None
        if C3 is None or C3.shape[-1] != 6:
            ctx.probe("condensed_tangent_reference_unavailable")
            return
        Cin = C3[..., IDX_2D, :][..., :, IDX_2D]
        ciz = C3[..., IDX_2D, ZZ]
        czi = C3[..., ZZ, :][..., IDX_2D]
        czz = C3[..., ZZ, ZZ]
        ref = Cin - ciz[..., :, None] * czi[..., None, :] / czz[..., None, None]
        good = np.asarray(conv, dtype=bool)
        if not good.any():
            return
        cs = max(refs.maxabs(ref[good]), 1e-300)
        err = np.max(np.abs((np.asarray(C2) - ref)[good]))
        if not err <= 1e-6 * cs:
            raise Violation("tangent-not-derivative", f"plane stress: the in-plane algorithmic tangent differs from the static condensation of the 3D tangent of the same material at the same state by {err:.3e} (scale {cs:.3e}; asymmetry of the 3D tangent {np.max(np.abs(C3 - np.swapaxes(C3, -1, -2))[good]):.3e}) [{self.c['yield']}, {self.c['hardening'][0]}, kin {self.c['kinematic']}]")
        ctx.checked()
        ctx.probe("condensed_tangent_checked")

    # ------------------------------------------------------------------ simulation actor
    def _sim_load(self, val):
        sim = self.sim
        with self.ctx.sut():
            sim.Bc_Init()
            m = sim.mesh
            sim.add_dirichlet(m.Nodes_Tags(self.tags[0]), [0.0, 0.0], ["x", "y"])
            sim.add_dirichlet(m.Nodes_Tags(self.tags[2]), [float(val)], ["y"])
        self.load = val

    def _sim_state(self):
        """(u_n bytes, committed internal variables); a group whose state was never touched is the virgin (zero) state,
        whether or not its zero array has been created yet."""
        sim = self.sim
        zo = simlib.priv(sim, "_InElastic__zOld")
        return sim.displacement.tobytes(), {str(k): np.array(v).tobytes() for k, v in zo.items() if np.any(np.array(v))}

    def _apply_sim(self, op):
        ctx, sim = self.ctx, self.sim
        name = op["op"]
        if name == "sim_load":
            self._sim_load(op["val"])
            return "ok"
        if name == "sim_solve":
            u0, z0 = self._sim_state()
            fault = op.get("fault") if self.cfg.get("faults") else None
            if fault:
                self.solver.arm(fault)
            failed = None
            try:
                with ctx.sut():
                    sim.Solve()
            except SutError as e:
                failed = e
            finally:
                pending = self.solver.disarm() if fault else False
            u1, z1 = self._sim_state()
            if failed is not None:
                # what a Save_Iter right after a failed attempt commits is not specified: no oracle on the next save
                self.sim_solved_since_commit = True
                self.sim_monotone_ok = False
                self.sim_had_failed_attempt = True  # from now on a state (live or saved) may be that of a diverged Newton loop
            if z1 != z0:
                raise Violation("solve-advanced-committed-state", f"the committed internal variables changed during Solve ({'failed' if failed else 'successful'}); only Save_Iter may advance the history")
            ctx.checked()
            if failed is not None:
                if u1 != u0:
                    raise Violation("failed-solve-changed-state", f"u_n changed although Solve raised {failed}")
                if fault and not pending:
                    ctx.probe("newton_failed_by_fault")
                    # retried step equals the unfaulted one: run a twin simulation without the fault
                    try:
                        with ctx.sut():
                            sim.Solve()
                    except SutError as e:
                        if simlib.is_nonconvergence(e.exc):
                            return "noconv"
                        raise Violation("retry-after-fault-raises", f"Solve retried after an injected failure raised {e}", e.site)
                    ctx.probe("newton_retried")
                    ur = self._reference_solve(u0)
                    if ur is not None and not np.array_equal(np.frombuffer(self._sim_state()[0]), ur):
                        raise Violation("retry-differs-from-unfaulted", "the step retried after an injected failure differs from the same step without failure")
                    ctx.checked()
                    self.sim_solved_since_commit = True
                    return "ok"
                if simlib.is_nonconvergence(failed.exc) or "did not converge" in str(failed.exc):
                    ctx.probe("sim_not_converged")
                    return "noconv"
                raise Violation("sim-solve-raises", f"Solve raised {failed}", failed.site)
            if fault and not pending:
                raise Violation("fault-swallowed", "an injected back-end failure did not surface from Solve()")
            self.sim_solved_since_commit = True
            return "ok"
        if name == "sim_save":
            zo0 = {str(k): np.array(v) for k, v in simlib.priv(sim, "_InElastic__zOld").items()}
            with ctx.sut():
                sim.Save_Iter()
            zo1 = {str(k): np.array(v) for k, v in simlib.priv(sim, "_InElastic__zOld").items()}
            ctx.probe("sim_state_committed")
            if not getattr(self, "sim_solved_since_commit", False):
                # nothing was solved since the last commit / restore: saving again (a hold, a checkpoint) commits the
                # very same history -- 'only saving a converged step advances the history'
                ctx.probe("sim_saved_without_solve")
                for k, v0 in zo0.items():
                    v1 = zo1.get(k)
                    if not np.any(v0):
                        continue  # virgin entries may be created lazily
                    if v1 is None or v1.shape != v0.shape or not np.array_equal(v1, v0, equal_nan=True):
                        raise Violation("save-without-solve-changed-history", f"Save_Iter with no Solve since the last Save_Iter / Set_Iter changed the committed internal variables of group {k}" + ("" if v1 is not None else " (the entry disappeared)"))
                ctx.checked()
            elif getattr(self, "sim_monotone_ok", False):
                # a step solved from the committed state and then saved: the accumulated plastic strain never decreases
                for k, v0 in zo0.items():
                    v1 = zo1.get(k)
                    p0 = self._p(v0) if v0.size else None
                    if p0 is None or not np.any(v0):
                        continue
                    p1 = self._p(v1) if v1 is not None and v1.shape == v0.shape else None
                    if p1 is None or (p0 - p1).max() > 1e-12 * max(refs.maxabs(p0), 1e-300):
                        raise Violation("plastic-multiplier-negative", f"committing a solved step decreased the accumulated plastic strain of group {k}" + (f" by {(p0 - p1).max():.3e}" if p1 is not None else " (the committed entry disappeared)"))
                ctx.checked()
            self.sim_solved_since_commit = False
            self.sim_monotone_ok = True
            self.__dict__.setdefault("sim_snaps", []).append({k: v.copy() for k, v in zo1.items() if np.any(v)})
            return "ok"
        if name == "sim_set_iter":
            if op["i"] >= sim.Niter:
                return "skip"
            with ctx.sut():
                sim.Set_Iter(op["i"])
            snaps = self.__dict__.get("sim_snaps", [])
            if op["i"] < len(snaps):
                # the history continues from iteration i: the committed state is the one that was committed then
                # (a virgin group may be absent or all-zero)
                now = {str(k): np.array(v) for k, v in simlib.priv(sim, "_InElastic__zOld").items() if np.any(np.array(v))}
                want = snaps[op["i"]]
                if set(now) != set(want) or any(now[k].shape != want[k].shape or not np.array_equal(now[k], want[k], equal_nan=True) for k in want):
                    raise Violation("rollback-keeps-later-history", f"after Set_Iter({op['i']}) the committed internal variables are not those committed by that Save_Iter (groups now {sorted(now)}, then {sorted(want)})")
                ctx.checked()
            self._sim_load(self.load)
            self.sim_solved_since_commit = False
            self.sim_monotone_ok = True
            return "ok"
        if name == "sim_result":
            u0, z0 = self._sim_state()
            try:
                with ctx.sut():
                    sim.Result("Svm")
                    sim.Result("Stress", nodeValues=False)
            except SutError as e:
                if getattr(self, "sim_had_failed_attempt", False) and "did not converge" in str(e.exc):
                    # results of a state left by a diverged Newton loop (then perhaps saved): the local iterations may
                    # refuse it, that is not a property of a state Integrate returned as converged
                    ctx.probe("result_refused_on_a_diverged_state")
                    return "noconv-state"
                raise
            if self._sim_state() != (u0, z0):
                raise Violation("read-alters-simulation", "Result() changed the displacement or the committed internal variables")
            ctx.checked()
            return "ok"
        raise ValueError(name)

    def _reference_solve(self, u0_bytes):
        """Same step on a brand-new simulation (same committed state, same conditions), no fault."""
        from EasyFEA import Simulations

        sim = self.sim
        try:
            with self.ctx.sut():
                raw = meshlib.library()[self.cfg["mesh"]]
                beh2 = build_behavior(self.c)[0]
                s2 = Simulations.InElastic(meshlib.build(raw), beh2)
                m = s2.mesh
                s2.add_dirichlet(m.Nodes_Tags(self.tags[0]), [0.0, 0.0], ["x", "y"])
                s2.add_dirichlet(m.Nodes_Tags(self.tags[2]), [float(self.load)], ["y"])
                u0 = np.frombuffer(u0_bytes).copy()
                s2._Set_solutions(s2.problemType, u0, np.zeros_like(u0), np.zeros_like(u0))
                ex = simlib.get_extra(sim, "InElastic")
                ex["z"] = {k: v.copy() for k, v in ex["zOld"].items()}
                simlib.set_extra(s2, "InElastic", ex)
                s2.Solve()
                return s2.displacement
        except SutError:
            return None

    def observe(self):
        if self.actor == "simu":
            return [self.sim.displacement, self.sim.Niter]
        return [np.asarray(self.zOld), self.eps]

    def abstract_state(self):
        c = self.c
        return (self.actor, c["yield"], c["hardening"][0], len(c["kinematic"]), c["rate"] is not None, len(c["branches"]), c["dim"], c["planeStress"], min(self.steps, 5), self.trial is not None)
