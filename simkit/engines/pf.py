"""Engine `pf` (C17, history clauses): along any load / unload / reload / zero-load history of the staggered
phase-field solver the stored history field and, for the damage-based irreversibility solvers, the nodal damage
never decrease between saved steps; with no loading the damage stays zero.  The split identities
(sigma+ + sigma- = C:eps, psi+ + psi- = 1/2 eps:C:eps, finiteness) are evaluated only as invariants on the strain
states the histories visit (which naturally include zero and uniaxial strain) -- not over all strain tensors.
"""

import numpy as np

from ..kernel import World, Violation, Discard, SutError, arr_rng
from .. import meshlib, simlib, refs, seams

ISO_ONLY = ("Amor", "Miehe", "Stress")
# diagonal strain patterns with repeated principal values (per number of displacement components)
HOMOG = {
    2: [(1, 1), (-1, -1), (1, 0), (0, -1), (1, -1), (1, 2)],
    3: [(1, 1, 1), (-1, -1, -1), (0, -1, 0), (1, 1, -2), (-1, 0.3, 0.3), (1, -0.3, -0.3), (1, 0, 0), (1, 2, 3)],
}


def make_pf_model(p):
    from EasyFEA import Models

    E = Models.Elastic
    if p.get("dim", 2) == 3:
        mat = E.Isotropic(3, E=p["E"], v=p["v"])
    elif p["material"] == "iso":
        mat = E.Isotropic(2, E=p["E"], v=p["v"], planeStress=p["planeStress"], thickness=p["thickness"])
    elif p["material"] == "trans":
        mat = E.TransverselyIsotropic(2, El=p["E"], Et=p["E"] * 0.4, Gl=p["E"] * 0.2, vl=0.25, vt=0.3, axis_l=(1, 1, 0), axis_t=(-1, 1, 0), planeStress=p["planeStress"], thickness=p["thickness"])
    else:
        iso = E.Isotropic(2, E=p["E"], v=p["v"], planeStress=False)
        C = iso.C.copy()
        C[0, 0] *= 1.5
        C[0, 1] *= 0.8
        C[1, 0] *= 0.8
        mat = E.Anisotropic(2, C, False, axis1=(1, 0, 0), axis2=(0, 1, 0), thickness=p["thickness"])
    return Models.PhaseField(mat, p["split"], p["regularization"], Gc=p["Gc"], l0=p["l0"], solver=p["solver"])


class PfWorld(World):
    PROPERTY = "C17"
    ENGINE = "pf"
    ASSUMPTIONS = [
        "only the irreversibility clauses are decided (over seeded load histories); split identities are checked as invariants at the strain states the histories reach, the projector-vs-eigendecomposition comparison is not decided",
        "monotonicity is demanded between consecutive saved steps of one loading history; after Set_Iter(i) the baseline becomes what was saved at i",
        "staggered solves that stop on maxIter without convergence are kept (irreversibility must hold anyway)",
    ]

    @classmethod
    def gen_config(cls, rng, tier, faults):
        split = simlib.PF_SPLITS_ISO[int(rng.integers(len(simlib.PF_SPLITS_ISO)))]
        material = "iso" if (split in ISO_ONLY or rng.random() < 0.6) else ["trans", "aniso"][int(rng.integers(2))]
        p = {
            "material": material, "E": float(np.round(10 ** rng.uniform(1.5, 3), 3)), "v": float(np.round(rng.uniform(0.0, 0.35), 3)),
            "planeStress": bool(rng.integers(2)), "thickness": float(np.round(rng.uniform(0.5, 2), 3)),
            "split": split, "regularization": ["AT1", "AT2"][int(rng.integers(2))],
            "Gc": float(np.round(10 ** rng.uniform(-2, 0), 5)), "l0": float(np.round(rng.uniform(0.1, 0.4), 3)),
            "solver": ["History", "HistoryDamage", "BoundConstrain"][int(rng.integers(3))],
        }
        mesh = ["tri3_a", "quad4_a", "tri3_b", "quad4_b", "tri6_a"][int(rng.integers(5 if tier == "thorough" else 4))]
        if rng.random() < 0.12:
            # 3D: the closed-form spectral decomposition has its own repeated-eigenvalue cases
            p.update(dim=3, material="iso", planeStress=False)
            mesh = ["hexa8_a", "tetra4_a", "prism6_a"][int(rng.integers(3))]
        if p.get("dim", 2) == 2 and rng.random() < 0.1:
            # two main-dimension groups (TRI3 + QUAD4) in one mesh: the history field lives per element group
            mesh = ["mixed_a", "mixed_b"][int(rng.integers(2))]
        cfg = {"params": p, "mesh": mesh, "nops": int(rng.integers(8, 25)), "faults": bool(faults), "zero_history": bool(rng.random() < 0.12)}
        # a script that reads Result('psiP') before every Save_Iter: the trial driving energy it reports is then exactly what
        # the save commits, so the irreversibility clause can be followed through the public API, element group by group
        cfg["read_before_save"] = bool(mesh.startswith("mixed") or rng.random() < 0.3)
        if rng.random() < 0.2:
            # a Dirichlet condition on the damage field (an initial crack d = 1, a protected zone d = 0, a partly damaged
            # inclusion) on one or two nodes of a third boundary entity: a constraint of the damage problem, which every
            # irreversibility solver -- the bounded least-squares one included -- has to honour
            cfg["d_bc"] = {"n": int(rng.integers(1, 3)), "val": [0.0, 0.6, 1.0, 1.0][int(rng.integers(4))]}
        return cfg

    def __init__(self, cfg, ctx):
        super().__init__(cfg, ctx)
        import EasyFEA
        from EasyFEA.Simulations import Solvers

        self.clock = seams.ClockSeam(ctx, EasyFEA)
        self.solver = seams.SolverSeam(ctx, Solvers)
        self.p = cfg["params"]
        raw = meshlib.library()[cfg["mesh"]]
        self.tags = simlib.boundary_tags(raw)
        with ctx.sut():
            self.model = make_pf_model(self.p)
            self.sim = simlib.make_sim("PhaseField", meshlib.build(raw), self.model)
        # two boundary entities without a common node (a node entered twice holds the *sum* of the entries)
        with ctx.sut():
            m0 = self.sim.mesh
            sets = [set(np.asarray(m0.Nodes_Tags(t)).tolist()) for t in self.tags]
        pair = next(((i, j) for i in range(len(sets)) for j in range(i + 1, len(sets)) if sets[i] and sets[j] and not (sets[i] & sets[j])), None)
        if pair is None:
            self.close()
            raise Discard("no two disjoint boundary entities on this mesh")
        self.tagA, self.tagB = self.tags[pair[0]], self.tags[pair[1]]
        self.load = (0.0, 0.0)
        self.rigid = (0.0, 0.0)  # translation added to both sides: strains at round-off level, not exactly zero
        self.homog = None  # (pattern, amplitude): every node is prescribed u = A x with repeated principal strains
        with ctx.sut():
            self.un = list(self.sim.Get_unknowns(self.sim.ProblemTypes.elastic))
        self._apply_load()
        self.saved = []  # per saved iteration: dict(d, H)
        self.base = None  # baseline (d, H) for monotonicity
        self.solved = False
        self.zero = True

    def close(self):
        self.solver.close()
        self.clock.close()

    def _apply_load(self):
        sim = self.sim
        ux, uy = self.load
        with self.ctx.sut():
            sim.Bc_Init()
            m = sim.mesh
            if self.homog is not None:
                # a homogeneous strain state with repeated principal values (equibiaxial, confined, hydrostatic, ...)
                A = np.diag(HOMOG[len(self.un)][self.homog[0]]) * self.homog[1]
                X = np.asarray(m.coord)[:, : len(self.un)]
                U = X @ A.T
                if len(self.homog) > 2 and self.homog[2] is not None:
                    # another degenerate pattern on the other half of the body: one call of the decomposition then sees
                    # points of both kinds (and, in the elements that straddle the cut, generic ones)
                    A2 = np.diag(HOMOG[len(self.un)][self.homog[2]]) * self.homog[1]
                    right = X[:, 0] > np.median(X[:, 0])
                    U[right] = X[right] @ A2.T
                nodes = np.arange(m.Nn)
                for k, comp in enumerate(self.un):
                    sim.add_dirichlet(nodes, [U[:, k].copy()], [comp])
            else:
                self._apply_sides(sim, m)
            if self.p["regularization"] == "AT1" and self.p["solver"] != "BoundConstrain" and self.ctx.avoids("at1-singular-damage-system"):
                # listed finding: without it the AT1 damage system is singular whenever psi+ vanishes everywhere.
                # A damage-free clamp keeps the system regular so that the rest of the history can be explored.
                sim.add_dirichlet(m.Nodes_Tags(self.tagA), [0.0], ["d"], problemType=sim.ProblemTypes.damage)
            dbc = self.cfg.get("d_bc")
            self.d_nodes = None
            if dbc:
                held = set(np.asarray(m.Nodes_Tags(self.tagA)).tolist()) | set(np.asarray(m.Nodes_Tags(self.tagB)).tolist())
                third = [t for t in self.tags if t not in (self.tagA, self.tagB)]
                cand = [n for t in third for n in np.asarray(m.Nodes_Tags(t)).tolist() if n not in held]
                cand = sorted(set(cand))
                if cand:
                    self.d_nodes = np.array(cand[: dbc["n"]], dtype=int)
                    sim.add_dirichlet(self.d_nodes, [float(dbc["val"])], ["d"], problemType=sim.ProblemTypes.damage)

    def _apply_sides(self, sim, m):
        ux, uy = self.load
        pad = [0.0] * (len(self.un) - 2)
        tx, ty = self.rigid
        sim.add_dirichlet(m.Nodes_Tags(self.tagA), [float(tx), float(ty)] + pad, self.un)
        sim.add_dirichlet(m.Nodes_Tags(self.tagB), [float(ux + tx), float(uy + ty)] + pad, self.un)

    # ------------------------------------------------------------------
    def gen_op(self, rng, frng):
        w = {"load": 4, "solve": 5, "save_iter": 3 if self.solved else 0, "set_iter": 0.8 if self.saved else 0, "splits": 1.5, "psiP_read": 0.5 if self.solved else 0,
             "material": 0.8 if self.p.get("material", "iso") in ("iso", "trans") else 0}
        names = sorted(w)
        pr = np.array([w[k] for k in names], dtype=float)
        name = names[int(rng.choice(len(names), p=pr / pr.sum()))]
        op = {"op": name}
        if name == "load":
            if self.cfg.get("zero_history"):
                op.update(mode="zero")
            else:
                op.update(mode=["increase", "increase", "decrease", "reverse", "zero", "shear", "rigid", "homog"][int(rng.integers(8))], amp=float(np.round(rng.uniform(0.005, 0.06), 4)))
                if op["mode"] == "homog" and rng.random() < 0.5:
                    op["pattern2"] = int(rng.integers(8))
                if op["mode"] == "homog":
                    op["pattern"] = int(rng.integers(8))
        elif name == "material":
            mat = self.p.get("material", "iso")
            pn = (["E", "v"] + (["planeStress"] if self.p.get("dim", 2) == 2 else []))[int(rng.integers(3 if self.p.get("dim", 2) == 2 else 2))] if mat == "iso" else ["El", "planeStress"][int(rng.integers(2))]
            val = {"E": float(np.round(10 ** rng.uniform(1, 3), 3)), "El": float(np.round(self.p["E"] * rng.uniform(0.6, 2.0), 3)), "v": float(np.round(rng.uniform(0.0, 0.4), 3)), "planeStress": bool(rng.integers(2))}[pn]
            op.update(name=pn, val=val)
        elif name == "solve":
            op.update(tolConv=[1.0, 0.5, 1e-1, 1e-2][int(rng.integers(4))], maxIter=int(rng.integers(2, 12)), convOption=int(rng.integers(0, 4)))
            if self.cfg.get("faults") and frng.random() < 0.3:
                op["fault"] = {"seam": "solver", "kind": ["memerr", "singular"][int(frng.integers(2))], "k": int(frng.integers(1, 6))}
        elif name == "set_iter":
            op.update(i=int(rng.integers(len(self.saved))), resetAll=bool(rng.integers(2)))
        if name in ("splits", "psiP_read"):
            op["_mut"] = False
        return op

    # ------------------------------------------------------------------
    def _H(self):
        try:
            H = getattr(self.sim, "_PhaseField__old_psiP_e_pg")
        except AttributeError:
            # the private field was renamed by a refactoring: the history clause cannot be observed (the public result
            # 'psiP' is evaluated on another quadrature and is not the committed field); every other oracle of this
            # engine keeps deciding
            self.ctx.probe("history_field_unobservable")
            return np.zeros(0)
        if isinstance(H, dict):
            # one array per element group: the clause is pointwise, the groups are laid end to end
            return np.concatenate([np.asarray(H[k], dtype=float).ravel() for k in sorted(H, key=str)]) if H else np.zeros(0)
        return np.array(H)

    def _check_splits(self, what):
        """sigma+ + sigma- = C:eps, psi+ + psi- = 1/2 eps:C:eps, all finite -- at the strain state reached now."""
        sim, ctx, model = self.sim, self.ctx, self.model
        from EasyFEA import MatrixType

        with ctx.sut():
            u = sim.displacement
            groups = list(sim.mesh.Get_list_groupElem(sim.mesh.dim))
        if not np.all(np.isfinite(np.asarray(u))):
            return  # reported by the irreversibility / zero-load checks
        for g in groups:
            with ctx.sut():
                eps = sim._Calc_Epsilon_e_pg(u, g, MatrixType.mass)
            self._check_splits_at(what, eps)

    def _check_splits_at(self, what, eps):
        sim, ctx, model = self.sim, self.ctx, self.model
        try:
            with ctx.sut():
                sP, sM = model.Calc_Sigma_e_pg(eps)
                pP, pM = model.Calc_psi_e_pg(eps)
                C = model.material.C
        except SutError as e:
            raise Violation("split-raises", f"{what}: split {self.p['split']} raised {e} on a strain state of the history (max|eps| {refs.maxabs(eps):.3e})", e.site)
        sP, sM, pP, pM, eps = (np.asarray(x) for x in (sP, sM, pP, pM, eps))
        if not (np.all(np.isfinite(sP)) and np.all(np.isfinite(sM)) and np.all(np.isfinite(pP)) and np.all(np.isfinite(pM))):
            raise Violation("split-not-finite", f"{what}: split {self.p['split']} returned NaN/Inf for a strain state of the history (max|eps| {refs.maxabs(eps):.3e}, zero strain: {refs.maxabs(eps) == 0})")
        sig = np.einsum("ij,epj->epi", C, eps) if C.ndim == 2 else np.einsum("epij,epj->epi", C, eps)
        psi = 0.5 * np.einsum("epi,epi->ep", sig, eps)
        ss = max(refs.maxabs(sig), 1e-300)
        if not refs.maxabs(sP + sM - sig) <= 1e-9 * ss:
            raise Violation("split-does-not-sum-to-stress", f"{what}: |sigma+ + sigma- - C:eps| = {refs.maxabs(sP + sM - sig):.3e} (scale {ss:.3e}) [{self.p['split']}]")
        ps = max(refs.maxabs(psi), 1e-300)
        if not refs.maxabs(pP + pM - psi) <= 1e-9 * ps:
            raise Violation("split-does-not-sum-to-energy", f"{what}: |psi+ + psi- - 1/2 eps:C:eps| = {refs.maxabs(pP + pM - psi):.3e} (scale {ps:.3e}) [{self.p['split']}]")
        ctx.checked()
        self._check_projectors(what, eps, "strain")
        self._check_projectors(what, sig, "stress")

    SPECTRAL = "_PhaseField__Spectral_Decomposition"

    def _check_projectors(self, what, vec, name):
        """'The spectral projectors agree with an independent eigen-decomposition', on the tensors the history visits:
        P+ . v must be the Kelvin-Mandel vector of V <w>+ V^T (numpy.linalg.eigh of the tensor), P+ + P- the identity."""
        model, ctx = self.model, self.ctx
        fn = getattr(model, self.SPECTRAL, None)
        if fn is None:
            ctx.probe("projector_check_unavailable")
            return
        from EasyFEA.FEM._linalg import FeArray

        vec = np.asarray(vec, dtype=float)
        try:
            with ctx.sut():
                projP, projM = fn(FeArray.asfearray(vec.copy()), False)
                coef = float(model.material.coef)
        except SutError as e:
            raise Violation("split-raises", f"{what}: the spectral decomposition of a {name} state of the history raised {e}", e.site)
        projP, projM = np.asarray(projP), np.asarray(projM)
        n = vec.shape[-1]
        dim = 2 if n == 3 else 3
        T = np.zeros(vec.shape[:2] + (dim, dim))
        for d in range(dim):
            T[..., d, d] = vec[..., d]
        pairs = [(0, 1, 2)] if dim == 2 else [(1, 2, 3), (0, 2, 4), (0, 1, 5)]
        for i, j, k in pairs:
            T[..., i, j] = T[..., j, i] = vec[..., k] / coef
        w, V = np.linalg.eigh(T)
        Tp = np.einsum("epik,epk,epjk->epij", V, np.maximum(w, 0.0), V)
        ref = np.zeros_like(vec)
        for d in range(dim):
            ref[..., d] = Tp[..., d, d]
        for i, j, k in pairs:
            ref[..., k] = Tp[..., i, j] * coef
        if not (np.all(np.isfinite(projP)) and np.all(np.isfinite(projM))):
            raise Violation("split-not-finite", f"{what}: spectral projectors of a {name} state of the history are NaN/Inf (max|v| {refs.maxabs(vec):.3e}, principal values of the worst point {w[~np.isfinite(projP).all(axis=(-2, -1))][0].tolist() if (~np.isfinite(projP).all(axis=(-2, -1))).any() else '?'})")
        got = np.einsum("epij,epj->epi", projP, vec)
        gotM = np.einsum("epij,epj->epi", projM, vec)
        scale = np.maximum(np.abs(vec).max(axis=-1, keepdims=True), 1e-300)
        err = np.abs(got - ref) / scale
        if err.max() > 1e-7:
            e_, p_ = np.unravel_index(np.argmax(err.max(axis=-1)), err.shape[:2])
            raise Violation("projector-differs-from-eigendecomposition", f"{what}: P+ applied to a {name} state differs from the positive part given by numpy.linalg.eigh by {err.max():.3e} (relative); principal values of that point {w[e_, p_].tolist()}, element {e_} point {p_} [{self.p.get('dim', 2)}D]")
        if (np.abs(got + gotM - vec) / scale).max() > 1e-7:
            raise Violation("projector-differs-from-eigendecomposition", f"{what}: (P+ + P-) v != v for a {name} state ({(np.abs(got + gotM - vec) / scale).max():.3e} relative)")
        ctx.checked()
        gaps = np.sort(w, axis=-1)
        rel_gap = np.min(np.diff(gaps, axis=-1), axis=-1) / np.maximum(np.abs(w).max(axis=-1), 1e-300)
        if (rel_gap < 1e-9).any():
            ctx.probe("projector_checked_on_repeated_principal_values")

    def apply(self, op):
        ctx, sim = self.ctx, self.sim
        name = op["op"]

        if name == "load":
            ux, uy = self.load
            m = op["mode"]
            if m != "homog":
                self.homog = None
            if m == "increase":
                uy = uy + op["amp"] if uy >= 0 else uy - op["amp"]
            elif m == "decrease":
                uy = uy * 0.5
            elif m == "reverse":
                uy = -uy if uy != 0 else -op["amp"]
            elif m == "zero":
                ux, uy = 0.0, 0.0
            elif m == "shear":
                ux = ux + op["amp"]
            elif m == "homog":
                pats = HOMOG[len(self.un)]
                self.homog = (op["pattern"] % len(pats), op["amp"] * 0.2, (op["pattern2"] % len(pats)) if "pattern2" in op else None)
                self.zero = False
                ctx.probe("homogeneous_degenerate_strain")
            elif m == "rigid":
                self.rigid = (float(np.round(self.rigid[0] + op["amp"] * 1.7, 6)), float(np.round(self.rigid[1] - op["amp"] * 0.9, 6)))
                # "no loading" is taken literally (every prescribed value zero): a translation is a non-zero prescribed
                # displacement, although it strains nothing -- finiteness and irreversibility are still demanded
                self.zero = False
                ctx.probe("rigid_translation")
            self.load = (float(np.round(ux, 6)), float(np.round(uy, 6)))
            if self.load != (0.0, 0.0):
                self.zero = False
            self._apply_load()
            return "ok"

        if name == "solve":
            before = simlib.get_state(sim)
            fault = op.get("fault") if self.cfg.get("faults") else None
            before_x = None
            if fault:
                try:
                    before_x = simlib.get_extra(sim, "PhaseField")  # needed to restart the step after the failure
                except Discard:
                    fault = None  # private state renamed: the step cannot be restarted by hand, so it is not failed
                    ctx.probe("fault_skipped_private_state_unobservable")
            if fault:
                self.solver.arm(fault)
            failed = None
            try:
                with ctx.sut():
                    out = sim.Solve(tolConv=op["tolConv"], maxIter=op["maxIter"], convOption=op["convOption"])
            except SutError as e:
                failed = e
            finally:
                pending = self.solver.disarm() if fault else False
            if failed is not None:
                if fault and not pending:
                    ctx.probe("staggered_loop_failed_by_fault")
                    # the loop commits sub-steps: restart the step from the saved pre-solve state, as a user would
                    with ctx.sut():
                        simlib.set_state(sim, before)
                        simlib.set_extra(sim, "PhaseField", before_x)
                        sim.Need_Update()
                    try:
                        with ctx.sut():
                            out = sim.Solve(tolConv=op["tolConv"], maxIter=op["maxIter"], convOption=op["convOption"])
                    except SutError as e:
                        raise Violation("retry-after-fault-raises", f"Solve retried after an injected failure raised {e}", e.site)
                    ctx.probe("staggered_loop_retried")
                else:
                    raise Violation("solve-raises", f"PhaseField.Solve raised {failed} [{self.p['split']}, {self.p['regularization']}, {self.p['solver']}, load {self.load}]", failed.site)
            elif fault and not pending:
                raise Violation("fault-swallowed", "an injected back-end failure did not surface from Solve()")
            self.solved = True
            ctx.probe(f"solve_{self.p['solver']}")
            u_ret, d_ret, conv = out[0], out[1], out[2]
            with ctx.sut():
                d_live = sim.damage
            if self.p["solver"] == "BoundConstrain":
                # the bounded least-squares back end: the damage system's solution honours its bounds
                lb = before[simlib.pt_key(sim.ProblemTypes.damage)][0]
                if np.all(np.isfinite(d_live)) and (d_live.min() < lb.min() - 1e-8 and np.any(d_live < lb - 1e-8) or d_live.max() > 1 + 1e-8):
                    raise Violation("bounds-violated", f"BoundConstrain: damage outside [previous damage, 1]: min(d - lb) = {(d_live - lb).min():.3e}, max d = {d_live.max():.3e}")
                ctx.checked()
            if getattr(self, "d_nodes", None) is not None:
                # the prescribed damage is held exactly (constraints of the damage problem, whatever the back end)
                want = float(self.cfg["d_bc"]["val"])
                if np.all(np.isfinite(d_live)) and not refs.maxabs(np.asarray(d_live)[self.d_nodes] - want) <= 1e-12:
                    raise Violation("damage-constraint-not-held", f"[{self.p['solver']}] damage prescribed to {want} on nodes {self.d_nodes.tolist()} is {np.asarray(d_live)[self.d_nodes].tolist()} after Solve")
                ctx.checked()
                ctx.probe("damage_dirichlet_condition_" + self.p["solver"])
            self._check_splits("after Solve")
            if self.zero:
                self._check_zero("after Solve with no loading", d_live)
            return "ok"

        if name == "save_iter":
            if not self.solved:
                return "skip"
            e_read = None
            if self.cfg.get("read_before_save") and self.p["solver"] == "History":
                try:
                    with ctx.sut():
                        e_read = np.array(sim.Result("psiP", nodeValues=False), dtype=float).ravel()
                except SutError as ex:
                    raise Violation("result-raises-after-save", f"Result('psiP') before Save_Iter raised {ex}", ex.site)
            with ctx.sut():
                sim.Save_Iter()
                d = sim.Get_results(-1)["damage"].copy()
            H = self._H()
            what = f"saved step {len(self.saved)} [{self.p['split']}, {self.p['regularization']}, {self.p['solver']}, load {self.load}]"
            if not np.all(np.isfinite(d)):
                raise Violation("damage-not-finite", f"{what}: NaN/Inf in the saved damage")
            if self.base is not None:
                d0, H0 = self.base
                if H0.shape == H.shape and H.size:
                    dec = (H0 - H).max()
                    if dec > 1e-12 * max(refs.maxabs(H0), 1e-300):
                        raise Violation("history-field-decreased", f"{what}: the stored history energy decreased by {dec:.3e} at some integration point (max H {refs.maxabs(H0):.3e})")
                    ctx.checked()
                if self.p["solver"] in ("HistoryDamage", "BoundConstrain"):
                    dec = (d0 - d).max()
                    if dec > 1e-9:
                        i = int(np.argmax(d0 - d))
                        raise Violation("damage-decreased", f"{what}: saved damage at node {i} went from {d0[i]:.6f} to {d[i]:.6f}")
                    ctx.checked()
            if e_read is not None:
                e0 = getattr(self, "base_e", None)
                if e0 is not None and e0.shape == e_read.shape and np.all(np.isfinite(e_read)):
                    dec = (e0 - e_read).max()
                    if dec > 1e-12 * max(refs.maxabs(e0), 1e-300):
                        i = int(np.argmax(e0 - e_read))
                        raise Violation("history-field-decreased", f"{what}: the driving energy of element {i} (Result 'psiP' read before each save: what the save commits, mean over the integration points of the element) went from {e0[i]:.6e} to {e_read[i]:.6e} between two saved steps [{self.cfg['mesh']}]")
                    ctx.checked()
                    ctx.probe("driving_energy_checked_through_the_public_result")
                self.base_e = e_read if np.all(np.isfinite(e_read)) else None
            if self.zero:
                self._check_zero(what, d)
            self.saved.append({"d": d, "H": H})
            self.base = (d, H)
            ctx.probe("step_saved")
            return "ok"

        if name == "set_iter":
            if op["i"] >= len(self.saved):
                return "skip"
            try:
                with ctx.sut():
                    sim.Set_Iter(op["i"], resetAll=op["resetAll"])
            except SutError as e:
                raise Violation("set-iter-raises", f"Set_Iter({op['i']}, resetAll={op['resetAll']}) raised {e} [{self.cfg['mesh']}, {self.p['solver']}]", e.site)
            s = self.saved[op["i"]]
            # the loading history continues from iteration i: what was saved there is the new baseline
            self.base = (s["d"], np.minimum(s["H"], self._H()) if s["H"].shape == self._H().shape else self._H())
            self._apply_load()
            self.base_e = None  # (listed finding pf-history-not-restored: the tracking restarts at the next saved step)
            ctx.probe("rollback")
            return "ok"

        if name == "splits":
            self._check_splits("splits")
            return "ok"

        if name == "material":
            # the material of the model is modified in place and then *read* by the caller (a script printing the new law)
            # before the model evaluates its split again
            mat = self.model.material
            if not hasattr(mat, op["name"]):
                return "skip"
            with ctx.sut():
                setattr(mat, op["name"], op["val"])
                _ = mat.C
            ctx.probe("material_written_then_read")
            self._check_splits("after a material write and a read of the law")
            return "ok"

        if name == "psiP_read":
            # reading the result recomputes the trial history energy; it must not lower what Save_Iter will commit
            with ctx.sut():
                sim.Result("psiP", nodeValues=False)
            return "ok"

        raise ValueError(name)

    def _check_zero(self, what, d):
        if getattr(self, "d_nodes", None) is not None and float(self.cfg["d_bc"]["val"]) != 0.0:
            # a prescribed non-zero damage is a loading of the damage problem: finiteness only
            if not np.all(np.isfinite(d)):
                raise Violation("damage-without-loading", f"{what}: the damage is NaN/Inf with a prescribed damage and no mechanical load [{self.p['split']}, {self.p['regularization']}, {self.p['solver']}]")
            return
        if not np.all(np.isfinite(d)):
            raise Violation("damage-without-loading", f"{what}: the damage is NaN/Inf although no load was ever applied [{self.p['split']}, {self.p['regularization']}, {self.p['solver']}]")
        if refs.maxabs(d) > 1e-12:
            raise Violation("damage-without-loading", f"{what}: max|d| = {refs.maxabs(d):.3e} although no load was ever applied [{self.p['split']}, {self.p['regularization']}, {self.p['solver']}]")
        self.ctx.checked()
        self.ctx.probe("zero_load_checked")

    def observe(self):
        st = simlib.get_state(self.sim)
        return [[st[k][0] for k in sorted(st)], self.load, len(self.saved)]

    def abstract_state(self):
        return (self.p.get("dim", 2), self.p["split"], self.p["regularization"], self.p["solver"], self.p["material"], min(len(self.saved), 4), self.zero, np.sign(self.load[1]), self.solved)
