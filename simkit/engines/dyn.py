"""Engine `dyn` (C05): each time scheme satisfies its documented update rule and discrete equation of motion,
for any prior state, step size, parameters and step sequence (switching scheme / step size between steps,
rollback, failed step + retry).

Reference: ONE generic integrator built from the documented scheme definitions (evaluation-point states as
functions of u_{n+1}); because they are affine in u_{n+1} the step is obtained by applying the residual to basis
vectors and solving densely.  The three hand-written tables of the code (history right-hand side, system-matrix
weights, corrector) are thereby all compared against a single definition.
"""

import numpy as np

from ..kernel import World, Violation, Discard, SutError, arr_rng
from .. import meshlib, simlib, refs, seams

EPS = np.finfo(float).eps


# ----------------------------------------------------------------------------
# documented definitions (Solvers.AlgoType docstrings, Solver_Set_Parabolic_Algorithm docstring)
# ----------------------------------------------------------------------------
def ref_states(spec, u1, u0, v0, a0):
    """Returns (u_t, v_t, a_t, v1, a1) for the scheme `spec` given the new displacement u1."""
    a = spec["algo"]
    dt = spec["dt"]
    if a in ("newmark", "hht", "hht_newmark"):
        if a == "hht_newmark":
            al = spec["alpha"]
            beta, gamma = 0.25 * (1 + al) ** 2, 0.5 + al
        else:
            beta, gamma = spec["beta"], spec["gamma"]
            al = spec.get("alpha", 0.0) if a == "hht" else 0.0
        ut = u0 + dt * v0 + dt**2 / 2 * (1 - 2 * beta) * a0
        a1 = (u1 - ut) / (beta * dt**2)
        v1 = v0 + dt * ((1 - gamma) * a0 + gamma * a1)
        if a == "newmark":
            return u1, v1, a1, v1, a1
        if a == "hht":
            return (1 - al) * u1 + al * u0, (1 - al) * v1 + al * v0, (1 - al) * a1 + al * a0, v1, a1
        return (1 - al) * u1 + al * u0, v1, a1, v1, a1
    if a == "midpoint":
        v1 = 2 / dt * (u1 - u0) - v0
        a1 = 2 / dt * (v1 - v0) - a0
        return (u1 + u0) / 2, (v1 + v0) / 2, (a1 + a0) / 2, v1, a1
    if a == "euler_implicit":
        v1 = (u1 - u0) / dt
        a1 = (v1 - v0) / dt
        return u1, v1, a1, v1, a1
    if a == "parabolic":
        al = spec["alpha"]
        v1 = (u1 - u0 - (1 - al) * dt * v0) / (al * dt)
        return u1, v1, None, v1, None
    raise KeyError(a)


def state_mags(spec, u1, u0, v0, a0):
    """Cancellation-free magnitudes of (u_t, v_t, a_t): the states are linear in (u1, u0, v0, a0), so the sum of the
    magnitudes of the four separate contributions bounds every intermediate term of the evaluation."""
    z = np.zeros_like(u0)
    mags = [0.0, 0.0, 0.0]
    for args in ((u1, z, z, z), (z, u0, z, z), (z, z, v0, z), (z, z, z, a0)):
        ut, vt, at, v1, a1 = ref_states(spec, *args)
        # v_t and a_t are formed from the end-of-step v1, a1 and the history: those intermediates count too
        # (midpoint: v1 = -v0 + ..., v_t = (v1 + v0)/2 has a zero net coefficient on v0 but rounds at |v0|)
        for k, fs in enumerate(((ut,), (vt, v1, args[2]), (at, a1, args[3]))):
            mags[k] += max((float(np.max(np.abs(f))) for f in fs if f is not None and np.size(f)), default=0.0)
    return mags


def ref_step(spec, K, C, M, F, known, uD, u0, v0, a0):
    """One step of the documented scheme with dense algebra.  Returns (u1, v1, a1, cond, info)."""
    n = u0.size
    free = np.setdiff1d(np.arange(n), known)
    if spec["algo"] == "euler_explicit":
        dt = spec["dt"]
        rhs = F - C @ v0 - K @ u0
        acc = np.zeros(n)
        Mff = M[np.ix_(free, free)]
        cond = np.linalg.cond(Mff) if free.size else 1.0
        if free.size and (not np.isfinite(cond) or cond > 1e14):
            return u0, None, None, np.inf, {"A": Mff, "S": np.zeros(0), "free": free}
        if free.size:
            acc[free] = np.linalg.solve(Mff, rhs[free])
        S = np.abs(Mff) @ np.abs(acc[free]) + np.abs(F[free]) + np.abs(C[free]) @ np.abs(v0) + np.abs(K[free]) @ np.abs(u0) if free.size else np.zeros(0)
        return u0 + dt * v0, v0 + dt * acc, acc, cond, {"A": Mff, "S": S, "free": free}

    def resid(u1):
        ut, vt, at, _, _ = ref_states(spec, u1, u0, v0, a0)
        r = K @ ut - F
        if vt is not None:
            r = r + C @ vt
        if at is not None:
            r = r + M @ at
        return r

    dt = spec["dt"]
    base = np.zeros(n)
    base[known] = uD
    r0 = resid(base)
    # linear part of the (affine) residual: evaluated with zero history, so that no huge history term pollutes it
    z = np.zeros(n)
    A = np.zeros((n, free.size))
    for j, d in enumerate(free):
        e = np.zeros(n)
        e[d] = 1.0
        ut, vt, at, _, _ = ref_states(spec, e, z, z, z)
        col = K @ ut
        if vt is not None:
            col = col + C @ vt
        if at is not None:
            col = col + M @ at
        A[:, j] = col
    Aff = A[free, :]
    cond = np.linalg.cond(Aff) if free.size else 1.0
    u1 = base.copy()
    if free.size:
        if not np.isfinite(cond) or cond > 1e14:
            return base, None, None, np.inf, {"A": Aff, "S": np.zeros(0), "free": free}
        u1[free] = np.linalg.solve(Aff, -r0[free])
    _, _, _, v1, a1 = ref_states(spec, u1, u0, v0, a0)
    # magnitude of what is summed in each equation, without letting history terms cancel each other: every such
    # term is a scheme weight times K, C or M times one of u_n, dt v_n, dt^2 a_n (up to O(1) factors)
    wK, wC, wM, _, _ = ref_states(spec, 1.0, 0.0, 0.0, 0.0)
    W = abs(wK) * np.abs(K)
    if wC is not None:
        W = W + abs(wC) * np.abs(C)
    if wM is not None:
        W = W + abs(wM) * np.abs(M)
    hist = np.abs(u0) + dt * np.abs(v0) + dt**2 * np.abs(a0) + np.abs(base)
    S0 = W @ hist + np.abs(F)
    S = (np.abs(Aff) @ np.abs(u1[free]) + S0[free]) if free.size else np.zeros(0)
    return u1, v1, a1, cond, {"A": Aff, "S": S, "free": free}


def update_defects(spec, u1, v1, a1, u0, v0, a0):
    """Well-conditioned forms of the documented update relations; returns list of (name, defect, scale)."""
    a = spec["algo"]
    dt = spec["dt"]
    out = []
    if a in ("newmark", "hht", "hht_newmark"):
        if a == "hht_newmark":
            al = spec["alpha"]
            beta, gamma = 0.25 * (1 + al) ** 2, 0.5 + al
        else:
            beta, gamma = spec["beta"], spec["gamma"]
        d1 = u1 - (u0 + dt * v0 + dt**2 * ((0.5 - beta) * a0 + beta * a1))
        s1 = max(refs.maxabs(u1), refs.maxabs(u0), dt * refs.maxabs(v0), dt**2 * max(refs.maxabs(a0), refs.maxabs(a1)))
        d2 = v1 - (v0 + dt * ((1 - gamma) * a0 + gamma * a1))
        s2 = max(refs.maxabs(v1), refs.maxabs(v0), dt * max(refs.maxabs(a0), refs.maxabs(a1)))
        out += [("displacement update", d1, s1), ("velocity update", d2, s2)]
    elif a == "midpoint":
        out.append(("velocity update", dt / 2 * (v1 + v0) - (u1 - u0), max(refs.maxabs(u1), refs.maxabs(u0), dt * max(refs.maxabs(v1), refs.maxabs(v0)))))
        out.append(("acceleration update", dt / 2 * (a1 + a0) - (v1 - v0), max(refs.maxabs(v1), refs.maxabs(v0), dt * max(refs.maxabs(a1), refs.maxabs(a0)))))
    elif a == "euler_implicit":
        out.append(("velocity update", dt * v1 - (u1 - u0), max(refs.maxabs(u1), refs.maxabs(u0), dt * refs.maxabs(v1))))
        out.append(("acceleration update", dt * a1 - (v1 - v0), max(refs.maxabs(v1), refs.maxabs(v0), dt * refs.maxabs(a1))))
    elif a == "euler_explicit":
        out.append(("displacement update", u1 - u0 - dt * v0, max(refs.maxabs(u1), refs.maxabs(u0), dt * refs.maxabs(v0))))
        out.append(("velocity update", v1 - v0 - dt * a1, max(refs.maxabs(v1), refs.maxabs(v0), dt * refs.maxabs(a1))))
    elif a == "parabolic":
        al = spec["alpha"]
        out.append(("displacement update", u1 - u0 - dt * ((1 - al) * v0 + al * v1), max(refs.maxabs(u1), refs.maxabs(u0), dt * max(refs.maxabs(v0), refs.maxabs(v1)))))
    return out


class DynWorld(World):
    PROPERTY = "C05"
    ENGINE = "dyn"
    ASSUMPTIONS = [
        "scheme definitions are the docstrings of Solvers.AlgoType and Solver_Set_Parabolic_Algorithm (u^{n+1} = u^n + dt v^{n+alpha}, equation written at n+1)",
        "parabolic alpha is drawn from (0.05, 1]: alpha = 0 is documented as forward Euler but divides by zero (recorded as an observation, not generated)",
        "load = what is applied at the time Solve is called; steps whose dense reduced matrix has condition number > 1e10 are discarded",
    ]
    ACTORS = ["Elastic", "Elastic", "Thermal", "WeakForms"]

    @classmethod
    def gen_config(cls, rng, tier, faults):
        lib = meshlib.library()
        if rng.random() < 0.15:
            # the incremental (Newton) path: a HyperElastic simulation under the same schemes
            from .dyn_newton import NewtonDyn

            return {"actor": "HyperElastic", "newton": NewtonDyn.gen_newton_config(rng, tier), "nops": int(rng.integers(8, 26)), "faults": bool(faults)}
        if rng.random() < 0.12:
            # frames of beams (rotational inertia, connections = Lagrange conditions) under the hyperbolic schemes
            from .dyn_beam import BeamDyn

            return {"actor": "Beam", "beamdyn": BeamDyn.gen_beamdyn_config(rng, tier), "nops": int(rng.integers(10, 36)), "faults": bool(faults)}
        actor = cls.ACTORS[int(rng.integers(len(cls.ACTORS)))]
        dim = 2
        cands = [n for n in meshlib.names(dim=2) if lib[n].Nn <= (25 if tier == "quick" else 40) and lib[n].main[0][0] in ("TRI3", "QUAD4", "TRI6", "QUAD8")]
        kinds = simlib.SIM_MODEL[actor]
        kind = kinds[int(rng.integers(len(kinds)))]
        cfg = {
            "actor": actor, "dim": dim, "mesh": cands[int(rng.integers(len(cands)))], "kind": kind,
            "params": simlib.gen_model_params(kind, rng, dim), "rho": float(np.round(rng.uniform(0.5, 4.0), 3)),
            "nops": int(rng.integers(10, 41 if tier == "quick" else 71)), "faults": bool(faults),
        }
        if kind == "wf_scalar" and rng.random() < 0.5:
            # user forms need not be symmetric: SUPG advection-diffusion (K, C and M all non-symmetric)
            cfg["params"]["supg"] = True
        return cfg

    def __init__(self, cfg, ctx):
        super().__init__(cfg, ctx)
        import EasyFEA
        from EasyFEA.Simulations import Solvers

        self.clock = seams.ClockSeam(ctx, EasyFEA)
        self.solver = seams.SolverSeam(ctx, Solvers)
        self.actor = cfg["actor"]
        if "newton" in cfg:
            from .dyn_newton import NewtonDyn

            try:
                self.newton = NewtonDyn(cfg, ctx, self.solver)
            except BaseException:
                self.close()
                raise
            self.gen_op = self.newton.gen_op
            self.apply = self.newton.apply
            self.observe = self.newton.observe
            self.abstract_state = self.newton.abstract_state
            return
        if "beamdyn" in cfg:
            from .dyn_beam import BeamDyn

            try:
                self.newton = BeamDyn(cfg, ctx, self.solver)
            except BaseException:
                self.close()
                raise
            self.gen_op = self.newton.gen_op
            self.apply = self.newton.apply
            self.observe = self.newton.observe
            self.abstract_state = self.newton.abstract_state
            return
        self.raw = meshlib.library()[cfg["mesh"]]
        self.params = dict(cfg["params"])
        with ctx.sut():
            self.mesh = meshlib.build(self.raw)
            if cfg["kind"].startswith("wf_"):
                self.model = simlib.make_weakforms(self.mesh, self.params)
            else:
                self.model = simlib.make_model(cfg["kind"], self.params)
            self.sim = simlib.make_sim(self.actor, self.mesh, self.model)
            self.sim.rho = cfg["rho"]
            self.pt = self.sim.problemType
            self.un = list(self.sim.Get_unknowns())
        self.spec = {"algo": "elliptic"}
        self.iters = []
        self.rayleigh = (0.0, 0.0)
        self.free_mode = False
        self.energy = None  # (E_ref, steps since) while tracking
        self.tags = simlib.boundary_tags(self.raw)
        self._set_bcs(0.0, 0.0)

    def close(self):
        self.solver.close()
        self.clock.close()

    # ------------------------------------------------------------------
    def _set_bcs(self, dval, fval):
        sim = self.sim
        with self.ctx.sut():
            sim.Bc_Init()
            m = sim.mesh
            sim.add_dirichlet(m.Nodes_Tags(self.tags[0]), [0.0] * len(self.un), self.un)
            if dval != 0.0:
                sim.add_dirichlet(m.Nodes_Tags(self.tags[2]), [float(dval)], [self.un[-1]])
            if fval != 0.0:
                sim.add_neumann(m.Nodes_Tags(self.tags[1]), [float(fval)], [self.un[0]])
        self.bc = (dval, fval)

    def gen_op(self, rng, frng):
        dynamic = self.spec["algo"] != "elliptic"
        w = {"algo": 2.5 if dynamic else 8, "rayleigh": 1, "set_state": 1.5, "load": 2, "step": 10 if dynamic else 1, "save_iter": 1,
             "set_iter": 1 if self.iters else 0, "free": 1.2 if self.actor != "Thermal" else 0.4, "weights": 1.5 if dynamic else 0, "clock_jump": 0.3}
        if self.actor != "Elastic":
            w["rayleigh"] = 0
        names = sorted(w)
        p = np.array([w[k] for k in names], dtype=float)
        name = names[int(rng.choice(len(names), p=p / p.sum()))]
        op = {"op": name}
        if name == "algo":
            spec = simlib.gen_algo(self.actor, rng)
            if spec["algo"] == "elliptic" and rng.random() < 0.8:
                algos = [a for a in simlib.sim_algos(self.actor) if a != "elliptic"]
                spec = simlib.gen_algo(self.actor, rng)
                while spec["algo"] == "elliptic":
                    spec = simlib.gen_algo(self.actor, rng)
            if "alpha" in spec and spec["algo"] == "parabolic":
                spec["alpha"] = float(np.round(rng.uniform(0.05, 1.0), 3))
            if spec["algo"] != "elliptic":
                spec["dt"] = float(np.round(10 ** rng.uniform(-3.5, 0.5), 6))
            op["spec"] = spec
        elif name == "rayleigh":
            op.update(cm=float(np.round(rng.uniform(0, 1.0), 3)), ck=float(np.round(rng.uniform(0, 0.1), 4)))
        elif name == "set_state":
            op.update(aseed=int(rng.integers(1 << 30)), scale=float(np.round(10 ** rng.uniform(-3, 0), 4)))
            if rng.random() < 0.15:
                # the same problem in other units (SI ultrasonics, MEMS): nothing in a linear scheme may depend on the
                # absolute magnitude of the state
                op["scale"] = float(f"{10 ** rng.uniform(-16, -9):.4e}")
        elif name == "load":
            op.update(d=float(np.round(rng.uniform(-0.1, 0.1), 4)) if rng.random() < 0.6 else 0.0, f=float(np.round(rng.uniform(-5, 5), 3)) if rng.random() < 0.6 else 0.0)
            if rng.random() < 0.15:
                k = float(f"{10 ** rng.uniform(-16, -10):.3e}")
                op.update(d=op["d"] * k, f=op["f"] * k)
        elif name == "set_iter":
            op["i"] = int(rng.integers(len(self.iters)))
        elif name == "free":
            op.update(aseed=int(rng.integers(1 << 30)), algo=["newmark", "midpoint", "euler_implicit"][int(rng.integers(3))], dt=float(np.round(10 ** rng.uniform(-3, 0.7), 5)))
        elif name == "weights":
            op["aseed"] = int(rng.integers(1 << 30))
            op["_mut"] = False
        elif name == "clock_jump":
            op["dt"] = float(np.round(rng.uniform(-1e6, 1e6), 1))
            op["_mut"] = False
        if name == "step" and self.cfg.get("faults") and frng.random() < 0.25:
            op["fault"] = {"seam": "solver", "kind": ["memerr", "singular"][int(frng.integers(2))], "k": 1}
        return op

    # ------------------------------------------------------------------
    def _dense_system(self):
        sim = self.sim
        with self.ctx.sut():
            K, C, M, F = sim.Get_K_C_M_F(self.pt)
            Fn = sim.Bc_vector_Neumann(self.pt)
            known = np.asarray(sim.Bc_dofs_Dirichlet(self.pt), dtype=int)
            vals = np.asarray(sim.Bc_values_Dirichlet(self.pt), dtype=float)
        n = sim.mesh.Nn * sim.Get_dof_n(self.pt)
        Kd, Cd, Md = (refs.dense(X)[:n, :n] for X in (K, C, M))
        Fd = refs.dense(F).ravel()[:n] + Fn
        # prescribed value of a dof = sum of its entries (documented convention of the elimination solver)
        uk = np.unique(known)
        uD = np.array([vals[known == d].sum() for d in uk])
        return Kd, Cd, Md, Fd, uk, uD

    def apply(self, op):
        ctx = self.ctx
        sim = self.sim
        name = op["op"]

        if name == "algo":
            if op["spec"]["algo"] not in simlib.sim_algos(self.actor):
                return "skip"
            with ctx.sut():
                simlib.apply_algo(sim, op["spec"])
            self.spec = dict(op["spec"])
            self.energy = None
            return "ok"

        if name == "rayleigh":
            if self.actor != "Elastic":
                return "skip"
            with ctx.sut():
                sim.Set_Rayleigh_Damping_Coefs(op["cm"], op["ck"])
            self.rayleigh = (op["cm"], op["ck"])
            self.free_mode = False
            self.energy = None
            return "ok"

        if name == "set_state":
            rng = arr_rng(op["aseed"])
            n = sim.mesh.Nn * sim.Get_dof_n(self.pt)
            u, v, a = (rng.normal(size=n) * op["scale"] for _ in range(3))
            with ctx.sut():
                sim._Set_solutions(self.pt, u, v, a)
            self.energy = None
            self.free_mode = False  # the arbitrary state need not satisfy the homogeneous constraints
            ctx.probe("arbitrary_prior_state")
            return "ok"

        if name == "load":
            self._set_bcs(op["d"], op["f"])
            self.free_mode = False
            self.energy = None
            return "ok"

        if name == "save_iter":
            with ctx.sut():
                sim.Save_Iter()
            self.iters.append(dict(self.spec))
            return "ok"

        if name == "set_iter":
            if op["i"] >= len(self.iters):
                return "skip"
            with ctx.sut():
                sim.Set_Iter(op["i"])
            self.energy = None
            self.free_mode = False
            ctx.probe("rollback")
            return "ok"

        if name == "clock_jump":
            ctx.vtime += op["dt"]
            ctx.fired("clock:jump")
            return "ok"

        if name == "free":
            if self.actor == "Thermal":
                return "skip"
            spec = {"algo": op["algo"], "dt": op["dt"]}
            if op["algo"] == "newmark":
                spec.update(beta=0.25, gamma=0.5)
            if spec["algo"] not in simlib.sim_algos(self.actor):
                return "skip"
            with ctx.sut():
                if self.actor == "Elastic":
                    sim.Set_Rayleigh_Damping_Coefs(0.0, 0.0)
                simlib.apply_algo(sim, spec)
            self.rayleigh = (0.0, 0.0)
            self.spec = spec
            self._set_bcs(0.0, 0.0)
            # a state compatible with the homogeneous constraints
            rng = arr_rng(op["aseed"])
            n = sim.mesh.Nn * sim.Get_dof_n(self.pt)
            u, v = rng.normal(size=n) * 0.01, rng.normal(size=n) * 0.01
            with ctx.sut():
                known = np.asarray(sim.Bc_dofs_Dirichlet(self.pt), dtype=int)
            u[known] = 0
            v[known] = 0
            with ctx.sut():
                sim._Set_solutions(self.pt, u, v, np.zeros(n))
            self.free_mode = True
            self.energy = None
            return "ok"

        if name == "weights":
            return self._check_weights(op)

        if name == "step":
            return self._step(op)

        raise ValueError(name)

    # ------------------------------------------------------------------
    def _check_weights(self, op):
        """(v) the weights of K, C, M are the derivatives of the evaluation-point states w.r.t. u_{n+1}."""
        sim, ctx = self.sim, self.ctx
        if self.spec["algo"] == "elliptic":
            return "skip"
        rng = arr_rng(op["aseed"])
        n = sim.mesh.Nn * sim.Get_dof_n(self.pt)
        st = simlib.get_state(sim)[simlib.pt_key(self.pt)]
        u0, v0, a0 = st
        x = rng.normal(size=n) * max(refs.maxabs(u0), 1e-2)
        d = rng.normal(size=n) * max(refs.maxabs(u0), 1e-2)
        with ctx.sut():
            cK, cC, cM = sim._Solver_Get_K_C_M_coefs_for_time_scheme()
            e0 = sim._Solver_Evaluate_u_v_a_for_time_scheme(self.pt, x.copy())
            e1 = sim._Solver_Evaluate_u_v_a_for_time_scheme(self.pt, (x + d).copy())
        if self.spec["algo"] == "euler_explicit":
            # the solve variable is a^n: A = M, the evaluation states do not depend on u_{n+1}
            if (cK, cC, cM) != (0, 0, 1):
                raise Violation("weights-not-derivatives", f"forward Euler weights are {(cK, cC, cM)}, documented system is M a^n = ...")
            ctx.checked()
            return "ok"
        mags = state_mags(self.spec, np.abs(x) + np.abs(d), u0, v0, a0)
        for nm, c, f0, f1, mag in zip(("K", "C", "M"), (cK, cC, cM), e0, e1, mags):
            if f0 is None:
                if c != 0:
                    raise Violation("weights-not-derivatives", f"coef{nm}={c} although the scheme has no such evaluation state")
                continue
            deriv = (f1 - f0)  # affine: equals c * d exactly
            scale = max(refs.maxabs(f0), refs.maxabs(f1), abs(c) * refs.maxabs(d), mag, 1e-300)
            if not refs.maxabs(deriv - c * d) <= 1e-9 * scale:
                raise Violation("weights-not-derivatives", f"[{self.spec}] coef{nm}={c} is not d({nm.lower()}_t)/d(u_n+1): defect {refs.maxabs(deriv - c * d):.3e}, scale {scale:.3e}")
            ctx.checked()
        # and the evaluation states are the documented ones
        ut, vt, at, _, _ = ref_states(self.spec, x, u0, v0, a0)
        for nm, got, ref, mag in zip(("u_t", "v_t", "a_t"), e0, (ut, vt, at), mags):
            if ref is None or got is None:
                continue
            scale = max(refs.maxabs(ref), mag, 1e-300)
            if not refs.maxabs(got - ref) <= 1e-9 * scale:
                raise Violation("evaluation-state-not-documented", f"[{self.spec}] {nm} differs from the documented definition: {refs.maxabs(got - ref):.3e} (scale {scale:.3e})")
            ctx.checked()
        return "ok"

    def _energy(self, K, M, u, v):
        return 0.5 * v @ (M @ v) + 0.5 * u @ (K @ u)

    def _step(self, op):
        sim, ctx = self.sim, self.ctx
        spec = self.spec
        K, C, M, F, known, uD = self._dense_system()
        key = simlib.pt_key(self.pt)
        u0, v0, a0 = simlib.get_state(sim)[key]
        n = u0.size
        if spec["algo"] == "elliptic":
            try:
                with ctx.sut():
                    sim.Solve()
            except SutError as e:
                raise Violation("step-raises", f"elliptic Solve raised {e}", e.site)
            return "ok"
        if self.actor == "Thermal" and spec["algo"] != "parabolic":
            return "skip"

        fault = op.get("fault") if self.cfg.get("faults") else None
        if fault:
            self.solver.arm(fault)
        failed = None
        try:
            with ctx.sut():
                sim.Solve()
        except SutError as e:
            failed = e
        finally:
            pending = self.solver.disarm() if fault else False
        if fault and not pending:
            if failed is None:
                raise Violation("fault-swallowed", "an injected back-end failure did not surface from Solve()")
            st = simlib.get_state(sim)[key]
            for a, b, nm in zip(st, (u0, v0, a0), "uva"):
                if not np.array_equal(a, b):
                    raise Violation("failed-step-changed-state", f"{nm}_n changed by a step that raised {failed}")
            ctx.checked()
            ctx.probe("step_failed_then_retried")
            try:
                with ctx.sut():
                    sim.Solve()
                failed = None
            except SutError as e:
                raise Violation("retry-after-fault-raises", f"step retried after an injected failure raised {e}", e.site)
        if failed is not None:
            raise Violation("step-raises", f"[{spec}] Solve raised {failed}", failed.site)

        u1, v1, a1 = simlib.get_state(sim)[key]
        ctx.phys_time += spec["dt"]
        ctx.probe("step_" + spec["algo"])
        if not (np.all(np.isfinite(u1)) and np.all(np.isfinite(v1)) and np.all(np.isfinite(a1))):
            raise Discard("non-finite state after a step (explosive explicit step or singular system)")

        # (iii) constrained dofs
        if spec["algo"] == "euler_explicit":
            if known.size and refs.maxabs(a1[known]) > 0:
                raise Violation("constraint-not-held", "forward Euler: constrained dofs have a non-zero acceleration")
        else:
            if known.size and not refs.maxabs(u1[known] - uD) <= 1e-12 * max(refs.maxabs(uD), refs.maxabs(u1), 1e-300):
                raise Violation("constraint-not-held", f"[{spec['algo']}] constrained dofs differ from their prescribed values by {refs.maxabs(u1[known] - uD):.3e}")
        ctx.checked()

        # (i) documented update relations
        for nm, d, s in update_defects(spec, u1, v1, a1 if spec["algo"] != "parabolic" else None, u0, v0, a0):
            if not refs.maxabs(d) <= 1e-10 * max(s, 1e-300):
                raise Violation("update-rule-violated", f"[{spec}] {nm}: defect {refs.maxabs(d):.3e}, scale {s:.3e}")
            ctx.checked()

        # (iv) the step equals the reference integrator's.  Tolerances are backward-error based: S is the magnitude
        # of what is summed in each equation (history terms included), so cancellation between large history terms
        # is accounted for; the forward bound on the solve variable is |A^-1| * (backward bound).
        ur, vr, ar, cond, info = ref_step(spec, K, C, M, F, known, uD, u0, v0, a0)
        if not np.isfinite(cond) or cond > 1e10:
            ctx.discards["ill-conditioned step"] += 1
            return "ill-conditioned"
        free = info["free"]
        dt = spec["dt"]
        Smax = max(refs.maxabs(info["S"]), 1e-300)
        bwd = 1e-10 * Smax
        if free.size:
            Ainv = np.linalg.inv(info["A"])
            fwd = bwd * float(np.max(np.sum(np.abs(Ainv), axis=1)))
            got, ref = (a1, ar) if spec["algo"] == "euler_explicit" else (u1, ur)
            if not refs.maxabs(got[free] - ref[free]) <= fwd:
                raise Violation("step-differs-from-documented-scheme", f"[{spec}] solve variable: max|diff|={refs.maxabs(got[free] - ref[free]):.3e} > bound {fwd:.3e} (|terms| {Smax:.3e}, cond {cond:.2e})")
            ctx.checked()

        # (ii) discrete equation of motion at the evaluation point, on the free dofs
        if spec["algo"] == "euler_explicit":
            r = M @ a1 + C @ v0 + K @ u0 - F
        else:
            ut, vt, at, _, _ = ref_states(spec, u1, u0, v0, a0)
            r = K @ ut - F
            if vt is not None:
                r = r + C @ vt
            if at is not None:
                r = r + M @ at
        if free.size and not refs.maxabs(r[free]) <= 10 * bwd:
            raise Violation("equation-of-motion-violated", f"[{spec}] residual on free dofs {refs.maxabs(r[free]):.3e} > {10 * bwd:.3e} (|terms| {Smax:.3e}, cond {cond:.2e})")
        ctx.checked()

        # (vi) energy
        if self.free_mode and not self.params.get("supg") and refs.maxabs(C) == 0 and refs.maxabs(F) == 0 and (uD.size == 0 or refs.maxabs(uD) == 0):
            E0, E1 = self._energy(K, M, u0, v0), self._energy(K, M, u1, v1)
            if spec["algo"] == "euler_implicit":
                if E1 > E0 * (1 + 1e-9) + 1e-300:
                    raise Violation("backward-euler-increases-energy", f"dt={dt}: E {E0:.12e} -> {E1:.12e}")
                ctx.checked()
                ctx.probe("energy_checked_euler_implicit")
            elif spec["algo"] == "midpoint" or (spec["algo"] == "newmark" and spec.get("beta") == 0.25 and spec.get("gamma") == 0.5):
                if spec["algo"] == "newmark":
                    # Newmark conserves from a state that satisfies the equation of motion: start after one step
                    if self.energy is None:
                        self.energy = (E1, 0)
                    else:
                        Eref, k = self.energy
                        if abs(E1 - Eref) > 1e-8 * max(abs(Eref), 1e-300) * (1 + cond * EPS * 1e3):
                            raise Violation("energy-not-conserved", f"newmark(1/4,1/2) dt={dt}: E drifted from {Eref:.12e} to {E1:.12e} after {k + 1} steps")
                        self.energy = (Eref, k + 1)
                        ctx.checked()
                        ctx.probe("energy_checked_newmark")
                else:
                    if abs(E1 - E0) > 1e-8 * max(abs(E0), 1e-300) * (1 + cond * EPS * 1e3):
                        raise Violation("energy-not-conserved", f"midpoint dt={dt}: E {E0:.12e} -> {E1:.12e}")
                    ctx.checked()
                    ctx.probe("energy_checked_midpoint")
        return "ok"

    def observe(self):
        st = simlib.get_state(self.sim)
        return [st[k] for k in sorted(st)]

    def abstract_state(self):
        return (self.actor, self.spec["algo"], self.free_mode, len(self.iters), self.bc[0] != 0, self.bc[1] != 0, self.rayleigh != (0.0, 0.0))
