"""Surface-operator actor of engine `hyper` (C18, clause "every nonlinear element operator returns a tangent that is the
derivative of its residual with respect to the step unknown"): a HyperElastic simulation subclass that adds, the way the
examples of the repository do (examples/CardiacElastoDynamics, examples/Contact), a follower pressure on boundary faces
(`Operators.NonLinear.FollowingPressure`, 3D) and a penalty contact against a rigid plane
(`Operators.NonLinear.PenaltyContact`, 2D edges and 3D faces) to the element systems of a Newton iteration.

The history: pressures and the obstacle are changed between solves, the body is solved statically or stepped with a
dynamic scheme (the surface terms are then evaluated at the scheme's evaluation point), back-end failures interrupt a
Newton loop which is then retried.  On the states such a history visits:

* the system of a Newton iteration is the derivative of the residual (central differences at trial states);
* a uniform outward pressure on the whole boundary (closed surface) has no resultant and its virtual work along any
  direction is p dV, V the volume of the deformed body (a geometric reference independent of the operator);
* the contact force is minus the derivative of the penalty energy  eps/2 int <-g>^2 dGamma  (own quadrature);
* a converged static solve leaves a residual at the level of the Newton tolerance on the free dofs.
"""

import numpy as np

from ..kernel import Violation, Discard, SutError, arr_rng
from .. import meshlib, simlib, refs
from .hyper import make_law

TRIAL_ATTR = "_Simu__current_newton_raphson_solution"
_CLS = {}


def surf_class():
    """HyperElastic + follower pressure + plane contact, wired as in the examples."""
    if "c" in _CLS:
        return _CLS["c"]
    from EasyFEA import Simulations, MatrixType
    from EasyFEA.FEM import Operators
    from EasyFEA.FEM._linalg import FeArray
    from EasyFEA.Simulations.Solvers import AlgoType

    class SurfHyperElastic(Simulations.HyperElastic):
        surf_pressure = None  # {tag: p}
        surf_plane = None  # (n, x0, penalty, tag)

        def Construct_local_matrix_system(self, problemType):
            res = super().Construct_local_matrix_system(problemType)
            dim = self.dim
            u = self._Solver_Get_Newton_Raphson_current_solution()
            if self.algo in AlgoType.Get_Hyperbolic_Types():
                u, _, _ = self._Solver_Evaluate_u_v_a_for_time_scheme(problemType, u)
            for g in self.mesh.Get_list_groupElem(dim - 1):
                K, F = None, None
                for tag, p in sorted((self.surf_pressure or {}).items()):
                    if tag in g.elementTags:
                        k, r = Operators.NonLinear.FollowingPressure(g, u, p, g.Get_Elements_Tag(tag), MatrixType.mass)
                        K = k if K is None else K + k
                        F = r if F is None else F + r
                if self.surf_plane is not None:
                    n, x0, eps, tag = self.surf_plane
                    els = np.asarray(g.Get_Elements_Tag(tag), dtype=int) if tag in g.elementTags else np.zeros(0, dtype=int)
                    if els.size:
                        gap, nn = plane_gap(g, u, dim, n, x0, els, MatrixType.mass)
                        k, r = Operators.NonLinear.PenaltyContact(g, eps, FeArray.asfearray(gap), FeArray.asfearray(nn), els, MatrixType.mass)
                        K = k if K is None else K + k
                        F = r if F is None else F + r
                if K is not None:
                    res[g] = (K, None, None, F)
            return res

    _CLS["c"] = SurfHyperElastic
    return SurfHyperElastic


def plane_gap(g, u, dim, n, x0, els, matrixType):
    """Signed gap g = n.(x - x0) of the deformed Gauss points of the elements `els` to the plane, and the (constant)
    outward normal of the obstacle at those points."""
    N_pg = np.asarray(g.Get_N_pg(matrixType))[:, 0, :]
    X = np.asarray(g.Get_GaussCoordinates_e_pg(matrixType))[els][..., :dim]
    ue = np.asarray(u).reshape(-1, dim)[np.asarray(g.connect)][els]
    x = X + np.einsum("pn,enc->epc", N_pg, ue)
    gap = np.einsum("epc,c->ep", x, n[:dim]) - float(n[:dim] @ x0[:dim])
    nn = np.zeros(gap.shape + (3,))
    nn[..., :dim] = n[:dim]
    return gap, nn


MESHES_3D = ["hexa8_a", "tetra4_a", "prism6_a", "tetra10_a", "hexa20_a"]
MESHES_2D = ["quad4_a", "tri3_a", "tri6_a", "quad8_a"]
SCHEMES = ["static", "static", "newmark", "midpoint", "hht", "euler_implicit"]


def gen_surf_config(rng, tier):
    dim = 3 if rng.random() < 0.75 else 2
    law = ["NeoHookean", "MooneyRivlin", "CiarletGeymonat", "SaintVenantKirchhoff"][int(rng.integers(4))]
    p = {"law": law, "dim": dim, "thickness": 1.0 if dim == 3 else float(np.round(rng.uniform(0.5, 2), 3))}
    if law == "NeoHookean":
        p["K"] = float(np.round(rng.uniform(20, 200), 2))
    elif law in ("MooneyRivlin", "CiarletGeymonat"):
        p.update(K1=float(np.round(rng.uniform(20, 100), 2)), K2=float(np.round(rng.uniform(5, 50), 2)), K=float(np.round(rng.uniform(50, 300), 2)))
    else:
        p.update(lmbda=float(np.round(rng.uniform(20, 200), 2)), mu=float(np.round(rng.uniform(20, 100), 2)))
    names = MESHES_3D if dim == 3 else MESHES_2D
    w3 = np.array([4, 3, 3, 1, 1], dtype=float)
    mesh = names[int(rng.choice(len(names), p=w3 / w3.sum()))] if dim == 3 else names[int(rng.integers(len(names)))]
    return {"params": p, "mesh": mesh, "rho": float(np.round(rng.uniform(0.5, 3), 3)), "scheme": SCHEMES[int(rng.integers(len(SCHEMES)))],
            "dt": float(np.round(10 ** rng.uniform(-2.3, -1.0), 5))}


class SurfHyper:
    def __init__(self, cfg, ctx, solver_seam):
        self.cfg, self.ctx, self.solver = cfg, ctx, solver_seam
        c = cfg["surf"]
        self.c = c
        self.dim = c["params"]["dim"]
        self.raw = meshlib.library()[c["mesh"]]
        self.tags = simlib.boundary_tags(self.raw)
        with ctx.sut():
            self.mat = make_law(c["params"])
            self.sim = surf_class()(meshlib.build(self.raw), self.mat, absTol=1e-8, relTol=1e-12, incTol=1e-13, maxIter=30)
            self.sim.rho = c["rho"]
            self.pt = self.sim.problemType
            self.un = list(self.sim.Get_unknowns())
            m = self.sim.mesh
            X = np.asarray(m.coord)
            self.center = X.mean(0)
            sets = [set(np.asarray(m.Nodes_Tags(t)).tolist()) for t in self.tags]
        self.X = X
        # the clamped entity and the loaded / contact entities share no node
        self.clamp = self.tags[0]
        self.others = [t for t, s in zip(self.tags, sets) if not (s & sets[0])]
        if not self.others:
            raise Discard("no boundary entity without a node of the clamped one")
        self.sim.surf_pressure = {}
        self.sim.surf_plane = None
        self.scheme = "static"
        self.dt = c["dt"]
        self.solves = 0
        self.steps = 0
        self._bcs()
        try:
            with ctx.sut():
                self.sim.Solve()  # unloaded static solve: Newton accepts u = 0 (and the trial state exists from here on)
        except SutError as e:
            raise Violation("step-raises", f"the unloaded static solve raised {e}", e.site)
        if c["scheme"] != "static":
            self._set_scheme(c["scheme"], self.dt)

    # ------------------------------------------------------------------
    def _bcs(self):
        sim = self.sim
        with self.ctx.sut():
            sim.Bc_Init()
            sim.add_dirichlet(sim.mesh.Nodes_Tags(self.clamp), [0.0] * len(self.un), self.un)

    def _set_scheme(self, name, dt):
        from EasyFEA import AlgoType

        sim = self.sim
        with self.ctx.sut():
            if name == "static":
                sim.Solver_Set_Elliptic_Algorithm()
            elif name == "newmark":
                sim.Solver_Set_Hyperbolic_Algorithm(dt, algo=AlgoType.newmark, beta=0.3, gamma=0.6)
            elif name == "hht":
                sim.Solver_Set_Hyperbolic_Algorithm(dt, algo=AlgoType.hht, alpha=0.1)
            elif name == "midpoint":
                sim.Solver_Set_Hyperbolic_Algorithm(dt, algo=AlgoType.midpoint)
            else:
                sim.Solver_Set_Hyperbolic_Algorithm(dt, algo=AlgoType.euler_implicit)
            sim.Solver_Set_Stress(sim.StressType.pointwise)
        self.scheme, self.dt = name, dt

    def _face_normal_sign(self, tag):
        """+1 when the reference normal dX/dr x dX/ds of the faces of `tag` points out of the body (the orientation of
        boundary elements is the mesh generator's: the bottom face of an extruded mesh looks inwards)."""
        from EasyFEA import MatrixType
        from EasyFEA.FEM import Operators

        tot = np.zeros(3)
        with self.ctx.sut():
            for g in self.sim.mesh.Get_list_groupElem(2):
                if tag in g.elementTags:
                    els = np.asarray(g.Get_Elements_Tag(tag), dtype=int)
                    _, r = Operators.NonLinear.FollowingPressure(g, np.zeros(self.X.size), 1.0, els, MatrixType.mass)
                    tot += r[els].reshape(len(els), g.nPe, 3).sum((0, 1))
            xc = self.X[np.asarray(self.sim.mesh.Nodes_Tags(tag))].mean(0)
        return 1.0 if float(tot @ (xc - self.center)) > 0 else -1.0

    # ------------------------------------------------------------------
    def gen_op(self, rng, frng):
        w = {"solve": 6, "set_pressure": 2.5 if self.dim == 3 else 0, "set_plane": 2.5, "set_scheme": 1.0, "tangent": 5, "surface_tangent": 4,
             "closed_pressure": 1.5 if self.dim == 3 else 0, "contact_energy": 1.5 if self.sim.surf_plane is not None else 0}
        names = sorted(w)
        pr = np.array([w[k] for k in names], dtype=float)
        name = names[int(rng.choice(len(names), p=pr / pr.sum()))]
        op = {"op": name}
        if name == "solve":
            if self.cfg.get("faults") and frng.random() < 0.25:
                op["fault"] = {"seam": "solver", "kind": ["memerr", "singular"][int(frng.integers(2))], "k": int(frng.integers(1, 4))}
        elif name == "set_pressure":
            op["tag"] = self.others[int(rng.integers(len(self.others)))]
            op["p"] = 0.0 if rng.random() < 0.15 else float(np.round(rng.uniform(-3, 3), 3))
        elif name == "set_plane":
            if rng.random() < 0.12:
                op["off"] = None
            else:
                op["tag"] = self.others[int(rng.integers(len(self.others)))]
                # the plane cuts the body near that face: part of its Gauss points penetrate, part do not
                op["depth"] = float(np.round(rng.uniform(-0.02, 0.08), 4))
                op["tilt"] = [float(np.round(rng.uniform(-0.3, 0.3), 3)) for _ in range(3)]
                op["penalty"] = float(np.round(10 ** rng.uniform(1, 3.5), 2))
        elif name == "set_scheme":
            op["scheme"] = SCHEMES[int(rng.integers(len(SCHEMES)))]
            op["dt"] = float(np.round(self.dt * 10 ** rng.uniform(-0.4, 0.4), 6))
        elif name in ("tangent", "surface_tangent", "closed_pressure", "contact_energy"):
            op.update(aseed=int(rng.integers(1 << 30)), _mut=False)
            if name in ("tangent", "surface_tangent"):
                op["amp"] = float(np.round(10 ** rng.uniform(-3, -1.3), 5))
            if name == "closed_pressure":
                op["p"] = float(np.round(rng.uniform(-3, 3), 3))
        return op

    def apply(self, op):
        ctx, sim = self.ctx, self.sim
        name = op["op"]
        if name == "set_pressure":
            d = dict(sim.surf_pressure)
            if op["p"] == 0.0 and op["tag"] in d and len(d) > 1:
                del d[op["tag"]]
            else:
                d[op["tag"]] = op["p"]
            sim.surf_pressure = d
            with ctx.sut():
                sim.Need_Update()
            ctx.probe("follower_pressure_set")
            return "ok"
        if name == "set_plane":
            if op.get("off", 0) is None:
                sim.surf_plane = None
            else:
                tag = op["tag"]
                with ctx.sut():
                    xc = self.X[np.asarray(sim.mesh.Nodes_Tags(tag))].mean(0)
                out = xc - self.center
                out = out / max(np.linalg.norm(out), 1e-300)
                n = -out + np.asarray(op["tilt"])  # the obstacle's outward normal looks into the body
                if self.dim == 2:
                    n[2] = 0.0
                n = n / np.linalg.norm(n)
                x0 = xc + n * op["depth"]  # depth > 0: the obstacle surface lies inside the body
                sim.surf_plane = (n, x0, op["penalty"], tag)
                ctx.probe("contact_plane_set")
            with ctx.sut():
                sim.Need_Update()
            return "ok"
        if name == "set_scheme":
            self._set_scheme(op["scheme"], op["dt"])
            return "ok"
        if name == "solve":
            return self._solve(op.get("fault") if self.cfg.get("faults") else None)
        if name == "tangent":
            return self._tangent(op)
        if name == "surface_tangent":
            return self._surface_tangent(op)
        if name == "closed_pressure":
            return self._closed_pressure(op)
        if name == "contact_energy":
            return self._contact_energy(op)
        raise ValueError(name)

    # ------------------------------------------------------------------
    def _known_free(self):
        n = self.X.shape[0] * self.dim
        with self.ctx.sut():
            known = np.asarray(self.sim.Bc_dofs_Dirichlet(self.pt), dtype=int)
        return known, np.setdiff1d(np.arange(n), known)

    def _system(self, u):
        sim = self.sim
        setattr(sim, TRIAL_ATTR, np.array(u, dtype=float))
        sim.Need_Update()
        K, C, M, F = sim.Assembly(self.pt)
        return K, C, M, -F.toarray().ravel()

    def _solve(self, fault):
        sim, ctx = self.sim, self.ctx
        before = simlib.get_state(sim)
        if fault:
            self.solver.arm(fault)
        failed = None
        try:
            with ctx.sut():
                sim.Solve()
        except SutError as e:
            failed = e
        finally:
            pending = self.solver.disarm() if fault else False
        if fault and not pending:
            if failed is None:
                raise Violation("fault-swallowed", "an injected back-end failure did not surface from Solve()")
            after = simlib.get_state(sim)
            for pt in before:
                for a, b, nm in zip(after[pt], before[pt], "uva"):
                    if not np.array_equal(a, b):
                        raise Violation("failed-step-changed-state", f"{nm}_n changed by a Newton step that raised {failed}")
            ctx.probe("newton_failed_then_retried")
            failed = None
            try:
                with ctx.sut():
                    sim.Solve()
            except SutError as e:
                failed = e
        if failed is not None:
            if simlib.is_nonconvergence(failed.exc) or isinstance(failed.exc, AssertionError):
                raise Discard("a solve with surface loads did not converge (or inverted an element)")
            raise Violation("step-raises", f"Solve raised {failed}", failed.site)
        self.solves += 1
        if self.scheme != "static":
            ctx.phys_time += self.dt
            self.steps += 1
            return "ok"
        # a converged static solve: residual of the stated system (body + follower pressure + contact) on the free dofs
        if not hasattr(sim, TRIAL_ATTR):
            return "ok"
        u = simlib.get_state(sim)[simlib.pt_key(self.pt)][0]
        known, free = self._known_free()
        old = getattr(sim, TRIAL_ATTR)
        try:
            with ctx.sut():
                K, _, _, R = self._system(u)
        except SutError as e:
            raise Violation("assembly-raises", f"assembling at the converged solution raised {e}", e.site)
        finally:
            setattr(sim, TRIAL_ATTR, old)
            sim.Need_Update()
        scale = max(refs.maxabs((abs(K) @ np.abs(u))), refs.maxabs(K.data) * 1e-3, 1e-300)
        if not refs.maxabs(R[free]) <= 1e-5 * scale + 1e-6:
            raise Violation("equations-not-satisfied", f"residual {refs.maxabs(R[free]):.3e} on the free dofs after a converged static solve with surface loads (scale {scale:.3e})")
        ctx.checked()
        return "ok"

    def _tangent(self, op):
        sim, ctx = self.sim, self.ctx
        if not hasattr(sim, TRIAL_ATTR):
            ctx.probe("tangent_check_unavailable")
            return "skip"
        key = simlib.pt_key(self.pt)
        u_n, v_n, a_n = simlib.get_state(sim)[key]
        rng = arr_rng(op["aseed"])
        n = u_n.size
        known, free = self._known_free()
        trial = u_n + rng.normal(size=n) * op["amp"]
        if self.scheme != "static":
            inc = self.dt * v_n
            if refs.maxabs(inc) > 0.05:
                inc = inc * (0.05 / refs.maxabs(inc))
            trial = trial + inc
        trial[known] = u_n[known]
        d = np.zeros(n)
        d[free] = rng.uniform(-1, 1, free.size)
        old = getattr(sim, TRIAL_ATTR)
        plane = sim.surf_plane
        try:
            with ctx.sut():
                cK, cC, cM = sim._Solver_Get_K_C_M_coefs_for_time_scheme() if self.scheme != "static" else (1.0, 0.0, 0.0)
                K, C, M, R0 = self._system(trial)
                A = cK * K + (cC * C if cC else 0) + (cM * M if cM else 0)
                # the contact residual has a kink where a Gauss point touches the plane: the difference step must not
                # carry any point across it
                h = 1e-6
                if plane is not None:
                    ue = self._eval_point(trial)
                    gaps = self._gaps(ue)
                    if gaps.size and np.min(np.abs(gaps)) < 50 * h:
                        ctx.probe("tangent_trial_state_on_the_contact_kink")
                        return "rejected"
                _, _, _, Rp = self._system(trial + h * d)
                _, _, _, Rm = self._system(trial - h * d)
        except SutError as e:
            if isinstance(e.exc, AssertionError):
                ctx.probe("tangent_trial_state_rejected")
                return "rejected"
            raise Violation("assembly-raises", f"assembling the Newton system with surface operators at a trial state raised {e}", e.site)
        finally:
            setattr(sim, TRIAL_ATTR, old)
            sim.Need_Update()
        if not (np.all(np.isfinite(R0)) and np.all(np.isfinite(Rp)) and np.all(np.isfinite(Rm)) and np.all(np.isfinite(A.data))):
            return "rejected"
        Ad = (A @ d)[free]
        fd = ((Rp - Rm) / (2 * h))[free]
        scale = max(refs.maxabs((abs(A) @ np.abs(d))[free]), 1e-300)
        noise = 1e-14 * max(refs.maxabs(R0), refs.maxabs(Rp)) / h
        err = refs.maxabs(Ad - fd)
        if sim.surf_pressure and any(v != 0.0 for v in sim.surf_pressure.values()):
            ctx.probe("tangent_checked_with_follower_pressure")
        if plane is not None and np.any(self._gaps(self._eval_point(trial)) < 0):
            ctx.probe("tangent_checked_with_active_contact")
        if not err <= 1e-5 * scale + 100 * noise:
            what = [k for k, on in (("follower pressure", bool(sim.surf_pressure)), ("plane contact", plane is not None)) if on]
            raise Violation("tangent-not-derivative-of-residual", f"[surface operators: {', '.join(what) or 'none'}; {self.c['params']['law']}, {self.scheme}, {self.c['mesh']}] A.d differs from the central difference of the residual by {err:.3e} (scale {scale:.3e})")
        ctx.checked()
        return "ok"

    def _eval_point(self, u_new):
        """Displacement at which the surface terms are evaluated (the scheme's evaluation point)."""
        sim = self.sim
        if self.scheme == "static":
            return u_new
        return np.asarray(sim._Solver_Evaluate_u_v_a_for_time_scheme(self.pt, np.array(u_new, dtype=float))[0])

    def _gaps(self, u):
        from EasyFEA import MatrixType

        sim = self.sim
        n, x0, eps, tag = sim.surf_plane
        out = []
        for g in sim.mesh.Get_list_groupElem(self.dim - 1):
            if tag in g.elementTags:
                els = np.asarray(g.Get_Elements_Tag(tag), dtype=int)
                if els.size:
                    out.append(plane_gap(g, u, self.dim, n, x0, els, MatrixType.mass)[0].ravel())
        return np.concatenate(out) if out else np.zeros(0)

    def _surface_force(self, u, pressure, plane, d=None):
        """Nodal force of the surface operators alone (what they put into the F slot), assembled densely; with a direction
        d also (K_surface d, |K_surface| |d|) from what they put into the K slot."""
        from EasyFEA import MatrixType
        from EasyFEA.FEM import Operators
        from EasyFEA.FEM._linalg import FeArray

        dim = self.dim
        f = np.zeros(self.X.shape[0] * dim)
        Kd, aKd = np.zeros_like(f), np.zeros_like(f)

        def add_K(asm, k):
            if d is not None:
                k = np.asarray(k)
                de = d[asm]
                np.add.at(Kd, asm.ravel(), np.einsum("eij,ej->ei", k, de).ravel())
                np.add.at(aKd, asm.ravel(), np.einsum("eij,ej->ei", np.abs(k), np.abs(de)).ravel())

        for g in self.sim.mesh.Get_list_groupElem(dim - 1):
            asm = np.asarray(g.Get_assembly_e(dim))
            for tag, p in sorted((pressure or {}).items()):
                if tag in g.elementTags:
                    k, r = Operators.NonLinear.FollowingPressure(g, u, p, g.Get_Elements_Tag(tag), MatrixType.mass)
                    np.add.at(f, asm.ravel(), np.asarray(r).ravel())
                    add_K(asm, k)
            if plane is not None:
                n, x0, eps, tag = plane
                if tag in g.elementTags:
                    els = np.asarray(g.Get_Elements_Tag(tag), dtype=int)
                    if els.size:
                        gap, nn = plane_gap(g, u, dim, n, x0, els, MatrixType.mass)
                        k, r = Operators.NonLinear.PenaltyContact(g, eps, FeArray.asfearray(gap), FeArray.asfearray(nn), els, MatrixType.mass)
                        np.add.at(f, asm.ravel(), np.asarray(r).ravel())
                        add_K(asm, k)
        return f if d is None else (f, Kd, aKd)

    def _surface_tangent(self, op):
        """The operators alone, at a state near the trajectory: what they put into the K slot, applied to d, is minus the
        central difference of what they put into the F slot (scale: the operators' own, not the body's stiffness)."""
        ctx, sim = self.ctx, self.sim
        pressure, plane = dict(sim.surf_pressure or {}), sim.surf_plane
        if not pressure and plane is None:
            return "skip"
        u_n = simlib.get_state(sim)[simlib.pt_key(self.pt)][0]
        rng = arr_rng(op["aseed"])
        u = u_n + rng.normal(size=u_n.size) * op["amp"]
        d = rng.uniform(-1, 1, u_n.size)
        h = 1e-6
        try:
            with ctx.sut():
                if plane is not None:
                    gaps = self._gaps(u)
                    if gaps.size and np.min(np.abs(gaps)) < 50 * h:
                        return "rejected"
                f0, Kd, aKd = self._surface_force(u, pressure, plane, d)
                fp = self._surface_force(u + h * d, pressure, plane)
                fm = self._surface_force(u - h * d, pressure, plane)
        except SutError as e:
            raise Violation("assembly-raises", f"a surface operator raised {e}", e.site)
        fd = -(fp - fm) / (2 * h)
        scale = max(refs.maxabs(aKd), 1e-300)
        noise = 1e-14 * max(refs.maxabs(f0), 1e-300) / h
        err = refs.maxabs(Kd - fd)
        if not err <= 1e-6 * scale + 100 * noise:
            what = [k for k, on in (("follower pressure", bool(pressure)), ("plane contact", plane is not None)) if on]
            raise Violation("tangent-not-derivative-of-residual", f"[surface operators alone: {', '.join(what)}; {self.c['mesh']}] K_e d differs from minus the central difference of the force by {err:.3e} (scale {scale:.3e})")
        ctx.checked()
        ctx.probe("surface_operator_tangent_checked")
        return "ok"

    def _volume(self, u, signs):
        """Volume of the body moved to X + u by the divergence theorem, V = 1/3 sum_faces int x . n dA with n = dx/dr x dx/ds
        turned outwards per boundary entity; written here in dense numpy from the shape-function tables of the face groups
        (the integrand is a polynomial the face rule integrates exactly for TRI3 / TRI6 / QUAD4 / QUAD8 faces; Mesh.volume
        is not used: its 4-point rule is not exact on a curved TETRA10)."""
        from EasyFEA import MatrixType

        V = 0.0
        x_n = self.X + np.asarray(u).reshape(-1, 3)
        for g in self.sim.mesh.Get_list_groupElem(2):
            N = np.asarray(g.Get_N_pg(MatrixType.mass))[:, 0, :]
            dN = np.asarray(g.Get_dN_pg(MatrixType.mass))
            w = np.asarray(g.Get_gauss(MatrixType.mass).weights)
            for tag, sgn in signs.items():
                if tag not in g.elementTags:
                    continue
                xe = x_n[np.asarray(g.connect)[np.asarray(g.Get_Elements_Tag(tag), dtype=int)]]
                a = np.einsum("pn,enc->epc", dN[:, 0, :], xe)
                b = np.einsum("pn,enc->epc", dN[:, 1, :], xe)
                x = np.einsum("pn,enc->epc", N, xe)
                V += sgn * float(np.einsum("p,epc,epc->", w, x, np.cross(a, b))) / 3.0
        return V

    def _closed_pressure(self, op):
        """A uniform pressure on the whole boundary, oriented outwards on every face: zero resultant, and the virtual work
        along d is p dV(u)/dd with V the volume of the body moved to X + u (`_volume`)."""
        ctx = self.ctx
        u_n = simlib.get_state(self.sim)[simlib.pt_key(self.pt)][0]
        rng = arr_rng(op["aseed"])
        u = u_n + rng.normal(size=u_n.size) * 0.01
        d = rng.uniform(-1, 1, u_n.size)
        p = op["p"]
        try:
            signs = {t: self._face_normal_sign(t) for t in self.tags}
            with ctx.sut():
                f = self._surface_force(u, {t: p * s for t, s in signs.items()}, None)
                h = 1e-5
                V = [self._volume(uu, signs) for uu in (u + h * d, u - h * d)]
        except SutError as e:
            raise Violation("assembly-raises", f"follower pressure on the whole boundary raised {e}", e.site)
        F = f.reshape(-1, 3)
        fs = max(float(np.abs(F).sum()), 1e-300)
        if not refs.maxabs(F.sum(0)) <= 1e-9 * fs:
            raise Violation("closed-surface-pressure-has-a-resultant", f"[{self.c['mesh']}] a uniform pressure {p} on the whole deformed boundary sums to {F.sum(0)} (sum of magnitudes {fs:.3e})")
        work = float(f @ d)
        dV = (V[0] - V[1]) / (2 * h)
        scale = float(np.abs(f) @ np.abs(d)) + 1e-300
        if not abs(work - p * dV) <= 1e-6 * scale + 1e-10:
            raise Violation("follower-pressure-work-not-p-dV", f"[{self.c['mesh']}] virtual work of a uniform outward pressure {p} on the closed boundary = {work:.8e}, p dV = {p * dV:.8e} (scale {scale:.3e})")
        ctx.checked(2)
        ctx.probe("closed_surface_pressure_checked")
        return "ok"

    def _contact_energy(self, op):
        """The contact force is minus the derivative of the penalty energy eps/2 int <-g>^2 dGamma (own quadrature with the
        face's weighted Jacobians) along any direction."""
        from EasyFEA import MatrixType

        ctx, sim = self.ctx, self.sim
        plane = sim.surf_plane
        if plane is None:
            return "skip"
        n, x0, eps, tag = plane
        u_n = simlib.get_state(sim)[simlib.pt_key(self.pt)][0]
        rng = arr_rng(op["aseed"])
        u = u_n + rng.normal(size=u_n.size) * 0.01
        d = rng.uniform(-1, 1, u_n.size)
        h = 1e-6

        def energy(uu):
            E = 0.0
            for g in sim.mesh.Get_list_groupElem(self.dim - 1):
                if tag in g.elementTags:
                    els = np.asarray(g.Get_Elements_Tag(tag), dtype=int)
                    if els.size:
                        gap = plane_gap(g, uu, self.dim, n, x0, els, MatrixType.mass)[0]
                        wJ = np.asarray(g.Get_weightedJacobian_e_pg(MatrixType.mass))[els]
                        E += 0.5 * eps * float(np.sum(wJ * np.where(gap < 0, gap, 0.0) ** 2))
            return E

        try:
            with ctx.sut():
                gaps = self._gaps(u)
                if gaps.size and np.min(np.abs(gaps)) < 50 * h:
                    return "rejected"
                f = self._surface_force(u, None, plane)
                Ep, Em = energy(u + h * d), energy(u - h * d)
        except SutError as e:
            raise Violation("assembly-raises", f"penalty contact raised {e}", e.site)
        fd = -(Ep - Em) / (2 * h)
        an = float(f @ d)
        scale = float(np.abs(f) @ np.abs(d)) + 1e-300
        noise = 1e-13 * max(abs(Ep), 1e-300) / h
        if np.any(gaps < 0):
            ctx.probe("contact_energy_checked_with_active_contact")
        if not abs(an - fd) <= 1e-5 * scale + 100 * noise + 1e-12:
            raise Violation("contact-force-not-derivative-of-penalty-energy", f"[{self.c['mesh']}] contact force . d = {an:.8e}, -d/dd (eps/2 int <-g>^2) = {fd:.8e} (scale {scale:.3e})")
        ctx.checked()
        return "ok"

    # ------------------------------------------------------------------
    def observe(self):
        st = simlib.get_state(self.sim)
        return [st[k] for k in sorted(st)]

    def abstract_state(self):
        sim = self.sim
        return ("surf", self.c["mesh"], self.scheme, len(sim.surf_pressure or {}), sim.surf_plane is not None, min(self.solves, 6))
