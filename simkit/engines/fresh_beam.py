"""Beam actor of engine `fresh` (C14): a frame of 2-3 beams (Euler-Bernoulli or Timoshenko, 2D/3D) with
connections.  Reference: the same frame rebuilt from scratch (gmsh + constructors) with the final beam parameters,
the recorded conditions replayed.  Mesh motions are not generated for frames: the beam axes belong to the model's
Line geometry, so moving the mesh alone is not a configuration the model describes."""

import numpy as np

from ..kernel import Violation, Discard, SutError, arr_rng
from .. import simlib, refs


def make_section(mesher, p, idx):
    """Cross-sections of the frame members: 0 = rectangle b x h, 1 = disc of diameter min(b, h), 2 = rectangle h x b."""
    from EasyFEA.Geoms import Domain, Point, Circle

    if idx == 1:
        return mesher.Mesh_2D(Circle(Point(0, 0), min(p["b"], p["h"]), min(p["b"], p["h"]) / 6))
    b, h = (p["b"], p["h"]) if idx == 0 else (p["h"], p["b"])
    return mesher.Mesh_2D(Domain(Point(-0.5 * b, -0.5 * h), Point(0.5 * b, 0.5 * h)))


def make_frame_sim(spec, with_alt=False):
    from EasyFEA import Mesher, Models, Simulations, ElemType
    from EasyFEA.Geoms import Domain, Point, Line

    # beams are named from a process-global counter and the mesh tags carry those names: start every frame at
    # "beam0" so that a run does not depend on how many frames the process built before (replay determinism)
    from EasyFEA.Models.Beam._beam import _Beam

    if hasattr(_Beam, "_Beam__nBeam"):
        _Beam._Beam__nBeam = -1
    p = spec["params"]
    dim = spec["dim"]
    mesher = Mesher()
    secs = {}
    for idx in spec.get("sec") or [0]:
        if idx not in secs:
            secs[idx] = make_section(mesher, p, idx)
    L = p["L"]
    pts = [(0, 0), (0, L), (L * 0.6, L * 1.1)] + ([(L * 0.9, L * 0.2)] if spec["three"] else [])
    lines = [Line(pts[0], pts[1], L / 3), Line(pts[1], pts[2], L / 3)] + ([Line(pts[1], pts[3], L / 3)] if spec["three"] else [])
    sec = spec.get("sec") or [0] * len(lines)
    yax = spec.get("yaxis") or [None] * len(lines)
    beams = [Models.Beam.Isotropic(dim, ln, secs[sec[k]], p["E"][k], p["v"][k], **({"yAxis": tuple(yax[k])} if yax[k] else {})) for k, ln in enumerate(lines)]
    for k, b in enumerate(beams):
        if p["ky"][k] is not None:
            b._ky = p["ky"][k]
    mesh = mesher.Mesh_Beams(beams=beams, elemType=ElemType(p["elemType"]))
    sim = Simulations.Beam(mesh, Models.Beam.BeamStructure(beams), useTimoshenko=spec["timoshenko"])
    if with_alt:
        # the same frame meshed again with both element types, as gmsh returns them (plain SEG groups): what a user
        # assigns to `simu.mesh` after a remeshing
        alt = {et: mesher.Mesh_Beams(beams=beams, elemType=ElemType(et)) for et in ("SEG2", "SEG3")}
        return sim, beams, pts, alt
    return sim, beams, pts


class BeamFresh:
    def __init__(self, cfg, ctx):
        self.cfg, self.ctx = cfg, ctx
        self.spec = {k: (dict(v) if isinstance(v, dict) else v) for k, v in cfg["beam"].items()}
        self.spec["params"] = {k: (list(v) if isinstance(v, list) else v) for k, v in cfg["beam"]["params"].items()}
        with ctx.sut():
            self.sim, self.beams, self.pts, self.alt = make_frame_sim(self.spec, with_alt=True)
        self.iter_elem = []  # element type of the mesh each saved iteration belongs to
        self.spec["sec"] = [0] * len(self.beams)
        self.spec["yaxis"] = [None] * len(self.beams)
        self.un = list(self.sim.Get_unknowns())
        self.bcs = []  # resolved ("D"/"N", pt, nodes, dofs, values, unknowns) or ("L", LagrangeCondition args)
        self.iters = 0
        self.solved = False
        self.d_points = set()  # points of the frame holding a full Dirichlet condition
        self.hinged = False

    @staticmethod
    def gen_beam_config(rng):
        three = bool(rng.random() < 0.3)
        nb = 3 if three else 2
        return {
            "dim": int(rng.integers(2, 4)), "three": three, "timoshenko": bool(rng.random() < 0.3),
            "params": {"b": float(np.round(rng.uniform(0.5, 2), 2)), "h": float(np.round(rng.uniform(0.5, 2), 2)), "L": float(np.round(rng.uniform(5, 20), 1)),
                       "E": [float(np.round(10 ** rng.uniform(2, 4), 2)) for _ in range(nb)], "v": [float(np.round(rng.uniform(0.1, 0.4), 2)) for _ in range(nb)],
                       "ky": [None] * nb, "elemType": ["SEG2", "SEG3"][int(rng.integers(2))]},
        }

    # ------------------------------------------------------------------
    def fresh(self, with_state=True):
        sim, _, _ = make_frame_sim(self.spec)
        from EasyFEA.FEM import LagrangeCondition

        for bc in self.bcs:
            if bc[0] == "D":
                sim._Bc_Add_Dirichlet(*bc[1:])
            elif bc[0] == "N":
                sim._Bc_Add_Neumann(*bc[1:])
            else:
                sim._Bc_Add_Lagrange(LagrangeCondition(*bc[1:]))
        if with_state:
            simlib.set_state(sim, simlib.get_state(self.sim))
        return sim

    def _anchored(self):
        have = set()
        for bc in self.bcs:
            if bc[0] == "D":
                have.update(bc[5])
        if not set(self.un) <= have:
            return False
        # a hinge frees the relative rotation: every member beyond the hinge whose far end is not clamped is a mechanism
        # (a singular system whose "solution" is round-off: live and rebuilt frames would only agree by accident)
        ends = {0, 2, len(self.pts) - 1}
        return ends <= self.d_points if self.hinged else len(self.d_points) >= 1

    def _connected(self):
        return any(bc[0] == "L" for bc in self.bcs)

    def gen_op(self, rng, frng):
        w = {"beam_param": 4, "dirichlet": 3 if self._anchored() else 8, "neumann": 2.5, "connection": 3 if not self._connected() else 0.0, "bc_init": 0.3, "remesh": 0.8, "section": 0.8, "yaxis": 1.0 if self.spec["dim"] == 3 else 0.0,
             # listed finding beam-usetimoshenko-written-after-construction: not generated while it is open
             "theory": 0.0 if self.ctx.avoids("beam-usetimoshenko-written-after-construction") else 0.6,
             "solve": 5 if (self._anchored() and self._connected()) else 0, "kcmf": 3, "result": 1.5 if self.solved else 0, "save_iter": 1, "set_iter": 0.7 if self.iters else 0}
        names = sorted(w)
        p = np.array([w[k] for k in names], dtype=float)
        name = names[int(rng.choice(len(names), p=p / p.sum()))]
        op = {"op": name, "s": 0}
        nb = len(self.beams)
        if name == "beam_param":
            pn = ["E", "v", "ky"][int(rng.choice(3, p=[0.5, 0.3, 0.2]))]
            val = float(np.round(10 ** rng.uniform(2, 4), 2)) if pn == "E" else (float(np.round(rng.uniform(0.1, 0.4), 2)) if pn == "v" else float(np.round(rng.uniform(0.5, 1.0), 3)))
            op.update(k=int(rng.integers(nb)), name=pn, val=val)
        elif name == "dirichlet":
            full = not self._anchored()
            k = len(self.un) if full else int(rng.integers(1, len(self.un) + 1))
            free_pts = [i for i in (0, 2, len(self.pts) - 1) if i not in self.d_points] or [0]
            op.update(point=free_pts[0] if full else int(rng.choice([0, 2, len(self.pts) - 1])), unknowns=[self.un[i] for i in (range(len(self.un)) if full else rng.permutation(len(self.un))[:k])],
                      vals=np.round(rng.uniform(-0.01, 0.01, k) * (rng.random() < 0.5), 5).tolist())
        elif name == "neumann":
            k = int(rng.integers(1, len(self.un) + 1))
            op.update(point=int(rng.integers(1, len(self.pts))), unknowns=[self.un[i] for i in rng.permutation(len(self.un))[:k]], vals=np.round(rng.uniform(-5, 5, k), 3).tolist())
        elif name == "connection":
            op["kind"] = ["fixed", "fixed", "hinged"][int(rng.integers(3))]
        elif name == "remesh":
            op["elemType"] = ["SEG2", "SEG3"][int(rng.integers(2))]
        elif name == "theory":
            op["timoshenko"] = bool(rng.integers(2))
        elif name == "section":
            op.update(k=int(rng.integers(nb)), idx=int(rng.integers(3)))
        elif name == "yaxis":
            # orientation of the cross-section about the fibre (the members of the frame lie in the plane z = 0)
            th = float(np.round(rng.uniform(0.2, 1.4), 3))
            op.update(k=int(rng.integers(nb)), axis=[0.0, float(np.round(np.sin(th), 6)), float(np.round(np.cos(th), 6))] if rng.random() < 0.5 else [float(np.round(np.cos(th), 6)), float(np.round(np.sin(th), 6)), float(np.round(0.5 * np.cos(th), 6))])
        elif name == "result":
            op["name"] = ["displacement", "ux", "uy", "rz"][int(rng.integers(4))]
        elif name == "set_iter":
            op["i"] = int(rng.integers(self.iters))
        if name in ("kcmf", "result"):
            op["_mut"] = False
        return op

    # ------------------------------------------------------------------
    def _compare(self, what):
        F = self.fresh()
        with self.ctx.sut():
            ref = F.Get_K_C_M_F()
        try:
            with self.ctx.sut():
                got = self.sim.Get_K_C_M_F()
        except SutError as e:
            raise Violation("live-raises-fresh-succeeds", f"{what}: Get_K_C_M_F raised {e}", e.site)
        ks = refs.maxabs(ref[0].data) if ref[0].nnz else 0.0
        for nm, A, B in zip("KCMF", got, ref):
            refs.sparse_close("stale-system", f"{what}: {nm} (beam) of the live simulation vs a frame rebuilt from scratch", A, B, rtol=1e-9, atol=1e-15 * ks)
            self.ctx.checked()
        return F

    def apply(self, op):
        ctx, sim = self.ctx, self.sim
        name = op["op"]
        if name == "beam_param":
            if op["k"] >= len(self.beams):
                return "skip"
            with ctx.sut():
                setattr(self.beams[op["k"]], "_ky" if op["name"] == "ky" else op["name"], op["val"])
            self.spec["params"][op["name"]][op["k"]] = op["val"]
            ctx.probe("beam_parameter_written")
            return "ok"
        if name in ("dirichlet", "neumann"):
            if op["point"] >= len(self.pts) or not set(op["unknowns"]) <= set(self.un):
                return "skip"
            F = self.fresh(with_state=False)

            def do(s):
                nodes = s.mesh.Nodes_Point(self.pts[op["point"]])
                if name == "dirichlet":
                    s.add_dirichlet(nodes, list(op["vals"]), op["unknowns"])
                else:
                    s.add_neumann(nodes, list(op["vals"]), op["unknowns"])

            with ctx.sut():
                do(F)
            try:
                with ctx.sut():
                    do(sim)
            except SutError as e:
                raise Violation("live-raises-fresh-succeeds", f"{name} raised {e}", e.site)
            with ctx.sut():
                bl = (sim.Bc_Dirichlet if name == "dirichlet" else sim.Bc_Neuman)[-1]
                bf = (F.Bc_Dirichlet if name == "dirichlet" else F.Bc_Neuman)[-1]
            if not np.array_equal(bl.dofs, bf.dofs) or not np.allclose(bl.dofsValues, bf.dofsValues, rtol=1e-12, atol=1e-15):
                raise Violation("stale-bc", f"{name}: the new condition differs from a frame rebuilt from scratch")
            self.bcs.append(("D" if name == "dirichlet" else "N", bl.problemType, bl.nodes, bl.dofsValues, bl.dofs, bl.unknowns))
            if name == "dirichlet" and set(op["unknowns"]) >= set(self.un):
                self.d_points.add(op["point"])
            ctx.checked()
            return "ok"
        if name == "connection":
            with ctx.sut():
                nodes = np.asarray(sim.mesh.Nodes_Point(self.pts[1]), dtype=int)
            if nodes.size < 2:
                return "skip"
            before = len(sim.Bc_Lagrange)
            with ctx.sut():
                for a, b in zip(nodes[:-1], nodes[1:]):
                    (sim.add_connection_fixed if op["kind"] == "fixed" else sim.add_connection_hinged)(np.array([a, b]))
                new = sim.Bc_Lagrange[before:]
            for bc in new:
                self.bcs.append(("L", bc.problemType, bc.nodes, bc.dofs, bc.unknowns, bc.dofsValues, bc.lagrangeCoefs, "Connection"))
            if op["kind"] == "hinged":
                self.hinged = True
            ctx.probe("beam_connection")
            return "ok"
        if name == "bc_init":
            with ctx.sut():
                sim.Bc_Init()
            self.bcs = []
            self.d_points = set()
            self.hinged = False
            return "ok"
        if name == "yaxis":
            if op["k"] >= len(self.beams) or self.spec["dim"] != 3:
                return "skip"
            with ctx.sut():
                self.beams[op["k"]].yAxis = tuple(op["axis"])
            self.spec["yaxis"] = list(self.spec["yaxis"])
            self.spec["yaxis"][op["k"]] = list(op["axis"])
            ctx.probe("beam_yaxis_written")
            return "ok"
        if name == "section":
            # another cross-section for one member (what belongs to the section -- area, moments, shear correction
            # factors -- must follow it)
            if op["k"] >= len(self.beams):
                return "skip"
            from EasyFEA import Mesher

            with ctx.sut():
                self.beams[op["k"]].section = make_section(Mesher(), self.spec["params"], op["idx"])
            self.spec["sec"] = list(self.spec["sec"])
            self.spec["sec"][op["k"]] = op["idx"]
            # a shear correction factor entered by hand belonged to the section that was replaced
            self.spec["params"]["ky"][op["k"]] = None
            ctx.probe("beam_section_replaced")
            return "ok"
        if name == "theory":
            # the public parameter of the simulation that selects the beam theory, written on the live object
            with ctx.sut():
                sim.useTimoshenko = op["timoshenko"]
            self.spec["timoshenko"] = op["timoshenko"]
            ctx.probe("beam_theory_written")
            return "ok"
        if name == "remesh":
            # the frame is meshed again and the new mesh (as the mesher returns it) replaces the old one
            with ctx.sut():
                sim.mesh = self.alt[op["elemType"]]
            self.spec["params"]["elemType"] = op["elemType"]
            self.bcs = []
            self.d_points = set()
            self.hinged = False
            self.solved = False
            ctx.probe("frame_mesh_replaced")
            return "ok"
        if name == "kcmf":
            self._compare("kcmf")
            return "ok"
        if name == "solve":
            if not (self._anchored() and self._connected()):
                return "skip"
            F = self._compare("pre-solve")
            failed = fref = None
            try:
                with ctx.sut():
                    sim.Solve()
            except SutError as e:
                failed = e
            try:
                with ctx.sut():
                    F.Solve()
            except SutError as e:
                fref = e
            if failed is not None and fref is None:
                raise Violation("live-raises-fresh-succeeds", f"Solve raised {failed}", failed.site)
            if failed is None and fref is not None:
                raise Violation("fresh-raises-live-succeeds", f"fresh Solve raised {fref}", fref.site)
            if failed is not None:
                return "exc:both"
            ul, uf = sim.displacement, F.displacement
            if not np.all(np.isfinite(uf)):
                raise Discard("frame solution not finite (mechanism)")
            refs.require_close("stale-solution", "beam displacement after Solve, live vs a frame rebuilt from scratch", ul, uf, rtol=1e-7, atol=1e-13)
            ctx.checked()
            self.solved = True
            return "ok"
        if name == "result":
            if not self.solved:
                return "skip"
            F = self.fresh()
            with ctx.sut():
                ref = F.Result(op["name"])
                got = sim.Result(op["name"])
            if ref is None:
                return "skip"
            refs.require_close("stale-result", f"Result({op['name']}) live vs fresh (beam)", got, ref, rtol=1e-8, atol=1e-13)
            ctx.checked()
            return "ok"
        if name == "save_iter":
            with ctx.sut():
                sim.Save_Iter()
            self.iters += 1
            self.iter_elem.append(self.spec["params"]["elemType"])
            return "ok"
        if name == "set_iter":
            if op["i"] >= self.iters:
                return "skip"
            with ctx.sut():
                sim.Set_Iter(op["i"])
                if self.iter_elem[op["i"]] != self.spec["params"]["elemType"]:
                    # back on the other mesh of the history: its conditions are entered again from scratch
                    sim.Bc_Init()
            if self.iter_elem[op["i"]] != self.spec["params"]["elemType"]:
                self.spec["params"]["elemType"] = self.iter_elem[op["i"]]
                self.bcs = []
                self.d_points = set()
                self.hinged = False
            self.solved = True
            return "ok"
        return "skip"

    def observe(self):
        return [self.sim.displacement, bool(self.sim.needUpdate), len(self.bcs)]

    def abstract_state(self):
        return ("Beam", self.spec["dim"], self.spec["three"], self.spec["timoshenko"], bool(self.sim.needUpdate), min(len(self.bcs), 6), self.solved)

    def finish(self):
        self._compare("end-of-run")
