"""Engine `law` (C11, lazy-update clause only): changing a parameter changes the law on next read.

Sequences of parameter writes (scalars and per-element fields), Set_C, and reads of C, S, Get_sqrt_C_S and
Walpole_Decomposition on the four elastic law classes, observed by 0-2 real simulations.  Oracle: a law freshly
constructed with the final parameters returns byte-identical C and S (same code path); on every reached state
C = C^T, C.S = I, eig(C) > 0, sqrt(C)^2 = C; every write raises needUpdate on every observer.
The statements of C11 that quantify over all admissible parameters (SPD, plane reductions, notation, rotation)
are pure and are NOT decided here.
"""

import numpy as np

from ..kernel import World, Violation, SutError, arr_rng
from .. import meshlib, refs

KINDS = ["Isotropic", "TransverselyIsotropic", "Orthotropic", "Anisotropic"]


def _E():
    from EasyFEA.Models.Elastic import _laws

    return _laws


def make_law(kind, p):
    L = _E()
    ax = {k: tuple(v) for k, v in p.items() if k.startswith("axis")}
    if kind == "Isotropic":
        return L.Isotropic(p["dim"], E=_v(p["E"]), v=_v(p["v"]), planeStress=p["planeStress"], thickness=p["thickness"])
    if kind == "TransverselyIsotropic":
        return L.TransverselyIsotropic(p["dim"], El=_v(p["El"]), Et=_v(p["Et"]), Gl=_v(p["Gl"]), vl=_v(p["vl"]), vt=_v(p["vt"]),
                                       axis_l=ax["axis_l"], axis_t=ax["axis_t"], planeStress=p["planeStress"], thickness=p["thickness"])
    if kind == "Orthotropic":
        return L.Orthotropic(p["dim"], E1=_v(p["E1"]), E2=_v(p["E2"]), E3=_v(p["E3"]), G23=_v(p["G23"]), G13=_v(p["G13"]), G12=_v(p["G12"]),
                             v23=_v(p["v23"]), v13=_v(p["v13"]), v12=_v(p["v12"]), axis_1=ax["axis_1"], axis_2=ax["axis_2"],
                             planeStress=p["planeStress"], thickness=p["thickness"])
    if kind == "Anisotropic":
        return L.Anisotropic(p["dim"], np.array(p["C"]), p["voigt"], axis1=ax["axis1"], axis2=ax["axis2"], thickness=p["thickness"])
    raise KeyError(kind)


def _v(x):
    """JSON value -> scalar or field."""
    return np.array(x, dtype=float) if isinstance(x, list) else x


_ORTHO3 = [((1, 0, 0), (0, 1, 0)), ((1, 1, 0), (-1, 1, 0)), ((1, 2, 2), (2, 1, -2)), ((0, 0, 1), (1, 0, 0)), ((2, -1, 2), (2, 2, -1)), ((0, 3, 4), (0, -4, 3))]
_ORTHO2 = [((1, 0, 0), (0, 1, 0)), ((1, 1, 0), (-1, 1, 0)), ((3, 4, 0), (-4, 3, 0)), ((0, 1, 0), (-1, 0, 0))]


def _axes(rng, dim=3):
    """Exactly orthogonal integer axis pairs, of any (power-of-two scaled) length."""
    tab = _ORTHO3 if dim == 3 else _ORTHO2
    a, b = tab[int(rng.integers(len(tab)))]
    sa, sb = 2.0 ** int(rng.integers(-2, 3)), 2.0 ** int(rng.integers(-2, 3))
    return [x * sa for x in a], [x * sb for x in b]


def rotated_reference(Cin, voigt, axis1, axis2, dim):
    """Kelvin-Mandel matrix of the fourth-order tensor whose material-basis matrix is Cin, in the global basis."""
    pairs = [(0, 0), (1, 1), (2, 2), (1, 2), (0, 2), (0, 1)] if dim == 3 else [(0, 0), (1, 1), (0, 1)]
    n = len(pairs)
    f = np.array([1.0 if i == j else np.sqrt(2.0) for i, j in pairs])
    Ckm = Cin * np.outer(f, f) if voigt else Cin
    e1 = np.asarray(axis1, dtype=float)
    e2 = np.asarray(axis2, dtype=float)
    e1, e2 = e1 / np.linalg.norm(e1), e2 / np.linalg.norm(e2)
    Q = np.column_stack([e1, e2, np.cross(e1, e2)])[:dim, :dim]
    T = np.zeros((dim,) * 4)
    for I, (i, j) in enumerate(pairs):
        for J, (k, l) in enumerate(pairs):
            v = Ckm[I, J] / (f[I] * f[J])
            for a, b in {(i, j), (j, i)}:
                for c, d in {(k, l), (l, k)}:
                    T[a, b, c, d] = v
    Tr = np.einsum("ia,jb,kc,ld,abcd->ijkl", Q, Q, Q, Q, T)
    M = np.zeros((n, n))
    for I, (i, j) in enumerate(pairs):
        for J, (k, l) in enumerate(pairs):
            M[I, J] = Tr[i, j, k, l] * f[I] * f[J]
    return M


def _spd(rng, n):
    A = rng.normal(size=(n, n))
    return (A @ A.T + n * np.eye(n)) * 10.0


SCALARS = {
    "Isotropic": {"E": (1.0, 1000.0), "v": (-0.5, 0.45)},
    "TransverselyIsotropic": {"El": (50.0, 500.0), "Et": (10.0, 100.0), "Gl": (5.0, 50.0), "vl": (0.0, 0.3), "vt": (0.0, 0.4)},
    "Orthotropic": {"E1": (100.0, 300.0), "E2": (50.0, 150.0), "E3": (40.0, 120.0), "G23": (10.0, 40.0), "G13": (10.0, 40.0), "G12": (10.0, 40.0),
                    "v23": (0.0, 0.25), "v13": (0.0, 0.25), "v12": (0.0, 0.25)},
    "Anisotropic": {},
}


class LawWorld(World):
    PROPERTY = "C11"
    ENGINE = "law"
    ASSUMPTIONS = [
        "only the clause 'changing a parameter changes the law on next read' is decided; SPD / inverse / plane reductions / notation / rotation are evaluated as invariants on the states the histories reach, not over all parameters",
        "the reference law is built by the same constructors with the final parameter values",
    ]

    @classmethod
    def gen_config(cls, rng, tier, faults):
        kind = KINDS[int(rng.integers(len(KINDS)))]
        dim = int(rng.integers(2, 4))
        p = {"dim": dim, "planeStress": bool(rng.integers(2)) if dim == 2 else False, "thickness": float(np.round(rng.uniform(0.5, 2), 3))}
        # moduli either of order 1..1000 or in SI units (Pa): compliances of 1e-11 are as good as those of 1e-2
        unit = 1.0 if rng.random() < 0.75 else 1e9
        for k, (lo, hi) in SCALARS[kind].items():
            p[k] = float(np.round(rng.uniform(lo, hi), 4)) * (unit if not k.startswith("v") else 1.0)
        # material axes of a 2D law may point out of the plane (fibres inclined through the thickness): a third of the 2D
        # laws get a general 3D pair
        adim = 3 if (dim == 2 and rng.random() < 0.33) else dim
        if kind == "TransverselyIsotropic":
            p["axis_l"], p["axis_t"] = _axes(rng, adim)
        elif kind == "Orthotropic":
            p["axis_1"], p["axis_2"] = _axes(rng, adim)
        elif kind == "Anisotropic":
            n = 3 if dim == 2 else 6
            p["C"] = (np.round(_spd(rng, n), 6) * unit).tolist()
            p["voigt"] = bool(rng.integers(2))
            p["axis1"], p["axis2"] = _axes(rng, dim)
            p["planeStress"] = False
        mesh = "quad4_a" if dim == 2 else "hexa8_a"
        return {"kind": kind, "dim": dim, "params": p, "mesh": mesh, "field_form": ["elem", "gauss"][int(rng.integers(2))], "observers": int(rng.integers(0, 3)), "nops": int(rng.integers(8, 31)), "faults": False, "unit": unit}

    def __init__(self, cfg, ctx):
        super().__init__(cfg, ctx)
        self.kind = cfg["kind"]
        self.p = {k: v for k, v in cfg["params"].items()}
        with ctx.sut():
            self.law = make_law(self.kind, self.p)
            from EasyFEA import Simulations

            raw = meshlib.library()[cfg["mesh"]]
            self.Ne = raw.main[0][1].shape[0]
            self.obs = [Simulations.Elastic(meshlib.build(raw), self.law) for _ in range(cfg["observers"])]
            for s in self.obs:
                s.Get_K_C_M_F()
        self.reads = 0

    # ------------------------------------------------------------------
    def gen_op(self, rng, frng):
        w = {"write": 5, "bad_write": 0.8, "rewrite_inplace": 1.0 if getattr(self, "user_arrays", None) else 0, "scribble": 0.8 if any(isinstance(v, list) for k, v in self.p.items() if k in SCALARS[self.kind]) else 0, "read_C": 3, "read_S": 2, "sqrt": 1.5, "walpole": 0.7, "set_C": 1.5 if self.kind == "Anisotropic" else 0,
             "flag": 1.0, "observer_assemble": 1.0 if self.obs else 0}
        names = sorted(w)
        pr = np.array([w[k] for k in names], dtype=float)
        name = names[int(rng.choice(len(names), p=pr / pr.sum()))]
        op = {"op": name}
        if name == "write":
            cands = list(SCALARS[self.kind]) + ["thickness"] + (["planeStress"] if self.cfg["dim"] == 2 and self.kind != "Anisotropic" else [])
            pn = cands[int(rng.integers(len(cands)))]
            op["name"] = pn
            if rng.random() < 0.15 and not isinstance(self.p[pn], list):
                # a write of the value the parameter already holds (must not cancel a pending change)
                op["val"] = self.p[pn]
                op["same"] = True
            elif pn == "planeStress":
                op["val"] = bool(rng.integers(2))
            elif pn == "thickness":
                op["val"] = float(np.round(rng.uniform(0.5, 2), 3))
            else:
                lo, hi = SCALARS[self.kind][pn]
                if not pn.startswith("v"):
                    lo, hi = lo * self.cfg.get("unit", 1.0), hi * self.cfg.get("unit", 1.0)
                # all field-valued constants of one law must share their shape (documented)
                form = "scalar" if rng.random() < 0.7 else self.cfg["field_form"]
                if form == "scalar" and rng.random() < 0.12 and not isinstance(self.p[pn], list):
                    # a change in the 7th digit (finite differences with respect to a parameter do that)
                    op["val"] = float(self.p[pn]) * (1.0 + 2e-7) if self.p[pn] != 0 else 1e-9
                    op["tiny"] = True
                elif form == "scalar":
                    op["val"] = float(np.round(rng.uniform(lo, hi), 4))
                else:
                    op["field"] = {"form": form, "aseed": int(rng.integers(1 << 30)), "lo": lo, "hi": hi}
        elif name == "rewrite_inplace":
            # the user's own array, modified in place and assigned again (E_e[sel] *= 2; mat.E = E_e): a change
            cands = [k for k in getattr(self, "user_arrays", {})]
            op["name"] = cands[int(rng.integers(len(cands)))]
            op["factor"] = float(np.round(rng.uniform(1.1, 1.9), 2))
        elif name == "scribble":
            # overwrite, in place, the array a parameter read returned (no assignment: not a parameter change)
            cands = [k for k, v in self.p.items() if k in SCALARS[self.kind] and isinstance(v, list)]
            op["name"] = cands[int(rng.integers(len(cands)))]
            op["factor"] = float(np.round(rng.uniform(1.2, 3.0), 2))
        elif name == "bad_write":
            # a write the setter must refuse: the law stays the one of the last accepted parameters
            cands = list(SCALARS[self.kind]) + ["thickness"]
            pn = cands[int(rng.integers(len(cands)))]
            op["name"] = pn
            op["val"] = -1.0 if (pn == "thickness" or not pn.startswith("v")) else 1.5
        elif name == "set_C":
            op["aseed"] = int(rng.integers(1 << 30))
            op["voigt"] = bool(rng.integers(2))
        if name in ("read_C", "read_S", "sqrt", "walpole", "flag"):
            op["_mut"] = False
        return op

    # ------------------------------------------------------------------
    def _field(self, f):
        rng = arr_rng(f["aseed"])
        shape = (self.Ne,) if f["form"] == "elem" else (self.Ne, 2)
        return np.round(rng.uniform(f["lo"], f["hi"], shape), 4)

    def _fresh(self):
        return make_law(self.kind, self.p)

    def _check_state(self, what):
        ctx = self.ctx
        live_exc = ref_exc = None
        try:
            with ctx.sut():
                C, S = self.law.C, self.law.S
        except SutError as e:
            live_exc = e
        try:
            with ctx.sut():
                F = self._fresh()
                Cr, Sr = F.C, F.S
        except SutError as e:
            ref_exc = e
        if live_exc or ref_exc:
            # differential rule: a parameter set that a freshly built law rejects in the same way is an input
            # matter (pure clause, not decided here), not staleness
            if live_exc and ref_exc and live_exc.kind == ref_exc.kind:
                ctx.probe("both_laws_reject_parameters")
                return None, None
            e = live_exc or ref_exc
            raise Violation("law-read-raises", f"{what}: live {'raises ' + str(live_exc) if live_exc else 'succeeds'}, fresh law {'raises ' + str(ref_exc) if ref_exc else 'succeeds'}", e.site)
        if C.shape != Cr.shape or not np.array_equal(C, Cr):
            err = refs.maxabs(C - Cr) if C.shape == Cr.shape else float("inf")
            raise Violation("stale-law", f"{what}: C differs from a law built with the final parameters (shape {C.shape} vs {Cr.shape}, max|diff| {err:.3e})")
        if S.shape != Sr.shape or not np.array_equal(S, Sr):
            err = refs.maxabs(S - Sr) if S.shape == Sr.shape else float("inf")
            raise Violation("stale-law", f"{what}: S differs from a law built with the final parameters (max|diff| {err:.3e})")
        ctx.checked()
        # invariants on the reached state
        n = C.shape[-1]
        I = np.eye(n)
        scale = max(refs.maxabs(C), 1e-300)
        if not refs.maxabs(C - np.swapaxes(C, -1, -2)) <= 1e-10 * scale:
            raise Violation("law-not-symmetric", f"{what}: |C - C^T| = {refs.maxabs(C - np.swapaxes(C, -1, -2)):.3e}")
        if not refs.maxabs(C @ S - I) <= 1e-9:
            raise Violation("law-not-inverse", f"{what}: |C.S - I| = {refs.maxabs(C @ S - I):.3e}")
        if not np.min(np.linalg.eigvalsh((C + np.swapaxes(C, -1, -2)) / 2)) > 0:
            raise Violation("law-not-positive-definite", f"{what}: smallest eigenvalue of C <= 0")
        ctx.checked()
        if self.cfg["dim"] == 2 and self.kind != "Anisotropic":
            # "the 2D laws are the plane-stress / plane-strain reductions of the 3D law": a 3D law of the same class with
            # the same constants and axes, reduced in dense numpy (rows and columns 11, 22, 12 of C for plane strain, of
            # S for plane stress) -- on the parameter sets the histories hold
            try:
                with ctx.sut():
                    C3 = np.asarray(make_law(self.kind, dict(self.p, dim=3, planeStress=False)).C)
            except SutError:
                C3 = None
            if C3 is not None and C3.shape[:-2] == C.shape[:-2]:
                idx = np.array([0, 1, 5])
                if self.p["planeStress"]:
                    S3 = np.linalg.inv(C3)
                    Cx = np.linalg.inv(S3[..., idx, :][..., :, idx])
                else:
                    Cx = C3[..., idx, :][..., :, idx]
                if not refs.maxabs(np.asarray(C) - Cx) <= 1e-9 * scale:
                    raise Violation("law-not-the-plane-reduction", f"{what}: the 2D law differs from the plane-{'stress' if self.p['planeStress'] else 'strain'} reduction of the 3D law with the same constants and axes: max|diff| {refs.maxabs(np.asarray(C) - Cx):.3e} (scale {scale:.3e})")
                ctx.checked()
                ctx.probe("plane_reduction_checked")
        axk = {"TransverselyIsotropic": ("axis_l", "axis_t"), "Orthotropic": ("axis_1", "axis_2")}.get(self.kind)
        if axk and np.ndim(C) == 2 and not (self.cfg["dim"] == 2 and (self.p[axk[0]][2] != 0 or self.p[axk[1]][2] != 0)):
            # the same constants with the material axes on the global ones give the material matrix; the law with axes
            # (a1, a2) must be that matrix rotated as a fourth-order tensor (dense numpy)
            try:
                with ctx.sut():
                    Cm = np.asarray(make_law(self.kind, dict(self.p, **{axk[0]: [1.0, 0.0, 0.0], axk[1]: [0.0, 1.0, 0.0]})).C)
            except SutError:
                Cm = None
            if Cm is not None and np.ndim(Cm) == 2:
                Cx = rotated_reference(Cm, False, self.p[axk[0]], self.p[axk[1]], self.cfg["dim"])
                if not refs.maxabs(np.asarray(C) - Cx) <= 1e-9 * scale:
                    raise Violation("law-not-the-rotated-tensor", f"{what}: C differs from the material matrix (same constants, axes on the global ones) rotated by Q = [e1 e2 e1 x e2] as a fourth-order tensor: max|diff| {refs.maxabs(np.asarray(C) - Cx):.3e} (scale {scale:.3e})")
                ctx.checked()
        if self.kind == "Anisotropic" and np.ndim(C) == 2:
            # "axes rotated by Q yield the Q-rotated fourth-order tensor": the law read back must be the matrix that was
            # entered (Voigt or Kelvin-Mandel), rotated as a fourth-order tensor by Q = [e1 e2 e1xe2] in dense numpy --
            # evaluated on the matrices and axis pairs the histories hold, not over all of them
            Cx = rotated_reference(np.array(self.p["C"], dtype=float), bool(self.p["voigt"]), self.p["axis1"], self.p["axis2"], self.cfg["dim"])
            if not refs.maxabs(C - Cx) <= 1e-9 * scale:
                raise Violation("law-not-the-rotated-tensor", f"{what}: C differs from the entered matrix rotated by Q = [e1 e2 e1 x e2] as a fourth-order tensor: max|diff| {refs.maxabs(C - Cx):.3e} (scale {scale:.3e})")
            ctx.checked()
        names = axk or (("axis1", "axis2") if self.kind == "Anisotropic" else None)
        if names and np.ndim(C) == 2:
            # "with material axes of any length ... the change-of-basis matrices being orthogonal": the public helper
            # Models.Get_Pmat with the axes as the history entered them (not normalised), on visited axis pairs only
            a1 = np.asarray(self.p[names[0]], dtype=float)
            a2 = np.asarray(self.p[names[1]], dtype=float)
            d = 3 if (a1[2] != 0 or a2[2] != 0 or self.cfg["dim"] == 3) else 2
            try:
                with ctx.sut():
                    from EasyFEA.Models import Get_Pmat

                    P = np.asarray(Get_Pmat(a1[:d], a2[:d]))
            except SutError as e:
                raise Violation("change-of-basis-raises", f"{what}: Get_Pmat({a1[:d].tolist()}, {a2[:d].tolist()}) raised {e}", e.site)
            if not refs.maxabs(P @ P.T - np.eye(P.shape[0])) <= 1e-12:
                raise Violation("change-of-basis-not-orthogonal", f"{what}: Get_Pmat({a1[:d].tolist()}, {a2[:d].tolist()}) is not orthogonal: max|P P^T - I| = {refs.maxabs(P @ P.T - np.eye(P.shape[0])):.3e} (axes of length {np.linalg.norm(a1[:d]):.3g}, {np.linalg.norm(a2[:d]):.3g})")
            ctx.checked()
            ctx.probe("change_of_basis_checked")
        return C, S

    def _check_observers(self, which, what):
        """K of the observing simulations vs a simulation built on a law with the final parameters."""
        ctx = self.ctx
        try:
            with ctx.sut():
                from EasyFEA import Simulations

                raw = meshlib.library()[self.cfg["mesh"]]
                ref = Simulations.Elastic(meshlib.build(raw), self._fresh())
                Kr = ref.Get_K_C_M_F()[0]
        except SutError:
            return "exc:ref"
        try:
            with ctx.sut():
                Ks = [(i, self.obs[i].Get_K_C_M_F()[0]) for i in which]
        except SutError as e:
            raise Violation("law-read-raises", f"{what}: observer assembly raises while a simulation on a fresh law assembles: {e}", e.site)
        for i, K in Ks:
            refs.sparse_close("stale-system", f"{what}: K of observer {i} vs a simulation built on the final law", K, Kr, rtol=1e-10)
        ctx.checked()
        return "ok"

    def apply(self, op):
        ctx = self.ctx
        name = op["op"]
        law = self.law

        if name == "write":
            pn = op["name"]
            if pn not in self.p:
                return "skip"
            val = self._field(op["field"]) if "field" in op else op["val"]
            if "field" in op and self.obs and op["field"]["form"] == "gauss":
                return "skip"  # the observers' quadrature fixes nPg; per-element fields are enough there
            try:
                with ctx.sut():
                    for s in self.obs:
                        s.Get_K_C_M_F()
            except SutError:
                return "skip"  # the current parameters are rejected (see read ops): nothing to lower the flags with
            with ctx.sut():
                setattr(law, pn, val)
            self.p[pn] = val.tolist() if isinstance(val, np.ndarray) else val
            ua = self.__dict__.setdefault("user_arrays", {})
            if isinstance(val, np.ndarray):
                ua[pn] = val  # the user keeps his array
            else:
                ua.pop(pn, None)
            if op.get("same"):
                ctx.probe("equal_value_write")
            # The update flags are the mechanism, not the property: a write that leaves a flag down (an equal-value
            # write short-cut, an eager recomputation) is only wrong if what is read next is stale -- so read at once.
            quiet = [i for i, s in enumerate(self.obs) if not s.needUpdate]
            if quiet or not law.needUpdate:
                ctx.probe("write_left_a_flag_down")
                self._check_state(f"right after writing {pn} (flag not raised)")
                if quiet:
                    self._check_observers(quiet, f"right after writing {pn} (observer flag not raised)")
            ctx.checked()
            if "field" in op:
                ctx.probe("field_parameter_" + op["field"]["form"])
            return "ok"

        if name == "rewrite_inplace":
            arr = getattr(self, "user_arrays", {}).get(op["name"])
            if arr is None or not isinstance(self.p.get(op["name"]), list):
                return "skip"
            lo, hi = SCALARS[self.kind][op["name"]]
            if not op["name"].startswith("v"):
                lo, hi = lo * self.cfg.get("unit", 1.0), hi * self.cfg.get("unit", 1.0)
            new_vals = np.clip(arr * op["factor"], lo, hi) if lo >= 0 else np.clip(arr * op["factor"], lo + 1e-3, hi - 1e-3)
            if np.array_equal(new_vals, arr):
                new_vals = np.clip(arr / op["factor"], lo, hi) if lo >= 0 else arr * 0.5
            try:
                with ctx.sut():
                    for s in self.obs:
                        s.Get_K_C_M_F()
            except SutError:
                return "skip"
            arr[...] = new_vals  # in place: the law may hold a reference to this very array
            with ctx.sut():
                setattr(law, op["name"], arr)
            self.p[op["name"]] = arr.tolist()
            ctx.probe("array_modified_in_place_and_assigned_again")
            C, _ = self._check_state("after assigning again an array that was modified in place (" + op["name"] + ")")
            if C is not None and self.obs:
                self._check_observers(range(len(self.obs)), "after assigning again an array that was modified in place")
            return "ok" if C is not None else "exc:both"

        if name == "scribble":
            if not isinstance(self.p.get(op["name"]), list):
                return "skip"
            with ctx.sut():
                got = getattr(law, op["name"])
            if isinstance(got, np.ndarray):
                got *= op["factor"]
                ctx.probe("scribbled_on_read_back_parameter")
                with ctx.sut():
                    again = getattr(law, op["name"])
                if not np.array_equal(np.asarray(again), np.asarray(self.p[op["name"]], dtype=float)):
                    raise Violation("parameter-changed-without-a-write", f"overwriting the array returned by reading {op['name']} changed the parameter the law holds (no assignment was made)")
            # nothing was assigned: now, and after whatever is written next, the law is the one of the parameters set
            C, _ = self._check_state("after overwriting in place the array returned by reading " + op["name"])
            return "ok" if C is not None else "exc:both"

        if name == "bad_write":
            if op["name"] not in self.p:
                return "skip"
            try:
                with ctx.sut():
                    setattr(law, op["name"], op["val"])
            except SutError:
                ctx.probe("write_rejected_by_setter")
                # the refused value must not have been stored, neither in the parameter nor in anything derived from it
                C, _ = self._check_state("after a rejected write of " + op["name"])
                return "rejected" if C is not None else "exc:both"
            # the setter accepted it: then it is simply a write (whether it should have is not C11's staleness clause)
            self.p[op["name"]] = op["val"]
            return "accepted"

        if name == "set_C":
            if self.kind != "Anisotropic":
                return "skip"
            n = 3 if self.cfg["dim"] == 2 else 6
            Cn = np.round(_spd(arr_rng(op["aseed"]), n), 6) * self.cfg.get("unit", 1.0)
            try:
                with ctx.sut():
                    for s in self.obs:
                        s.Get_K_C_M_F()
            except SutError:
                return "skip"
            with ctx.sut():
                law.Set_C(Cn, op["voigt"])
            self.p["C"] = Cn.tolist()
            self.p["voigt"] = op["voigt"]
            quiet = [i for i, s in enumerate(self.obs) if not s.needUpdate]
            if quiet:
                self._check_observers(quiet, "right after Set_C (observer flag not raised)")
            ctx.checked()
            return "ok"

        if name in ("read_C", "read_S"):
            C, _ = self._check_state(name)
            self.reads += 1
            return "ok" if C is not None else "exc:both"

        if name == "sqrt":
            # read the square roots *first*: their cache must be reset by a pending update
            try:
                with ctx.sut():
                    sC, sS = law.Get_sqrt_C_S()
            except SutError as e:
                try:
                    with ctx.sut():
                        self._fresh().Get_sqrt_C_S()
                except SutError as e2:
                    if e2.kind == e.kind:
                        return "exc:both"
                raise Violation("law-read-raises", f"Get_sqrt_C_S: {e}", e.site)
            C, S = self._check_state("sqrt")
            if C is None:
                return "exc:both"
            if not refs.maxabs(sC @ sC - C) <= 1e-9 * max(refs.maxabs(C), 1e-300):
                raise Violation("stale-sqrt", f"Get_sqrt_C_S()[0]^2 differs from C by {refs.maxabs(sC @ sC - C):.3e} (cached square root of a previous law?)")
            if not refs.maxabs(sS @ sS - S) <= 1e-9 * max(refs.maxabs(S), 1e-300):
                raise Violation("stale-sqrt", f"Get_sqrt_C_S()[1]^2 differs from S by {refs.maxabs(sS @ sS - S):.3e}")
            ctx.checked()
            return "ok"

        if name == "walpole":
            if isinstance(self.p.get("C"), list) and False:
                return "skip"
            try:
                with ctx.sut():
                    ci, Ei = law.Walpole_Decomposition()
                    F = self._fresh()
                    cr, Er = F.Walpole_Decomposition()
            except SutError as e:
                if isinstance(e.exc, (NotImplementedError,)):
                    return "skip"
                # heterogeneous laws may legitimately refuse: same behaviour expected from the fresh law
                return "exc:" + e.kind
            if not (np.array_equal(np.asarray(ci, dtype=float), np.asarray(cr, dtype=float)) and np.array_equal(np.asarray(Ei, dtype=float), np.asarray(Er, dtype=float))):
                raise Violation("stale-law", "Walpole_Decomposition differs from a law built with the final parameters")
            ctx.checked()
            return "ok"

        if name == "flag":
            # after a read the flag is down; a read never leaves a stale flag up
            try:
                with ctx.sut():
                    _ = law.C
            except SutError:
                return "exc"
            if law.needUpdate:
                raise Violation("law-flag-stuck", "needUpdate still raised after reading C")
            return "ok"

        if name == "observer_assemble":
            if not self.obs:
                return "skip"
            return self._check_observers(range(len(self.obs)), "observer assembly")

        raise ValueError(name)

    def observe(self):
        return [self.reads, bool(self.law.needUpdate)]

    def abstract_state(self):
        het = sorted(k for k, v in self.p.items() if isinstance(v, list) and k != "C" and not k.startswith("axis"))
        return (self.kind, self.cfg["dim"], bool(self.law.needUpdate), tuple(het), len(self.obs))
