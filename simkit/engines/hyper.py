"""Engine `hyper` (C18, energy-balance clause): under the midpoint scheme with the energy-conserving stress
options (gonzalez; quadrature with a tight energyTol) free motion conserves KE + W over arbitrarily many steps,
for any converging step size, across step-size changes, rollback and failed-then-retried Newton steps.
Invariants on visited states: W = 0 and zero internal force in the reference configuration.
On the states the trajectories visit, the system of a Newton iteration is checked to be the derivative of the residual
(scheme, stress option and previous state included).  The law-level derivative consistency and objectivity are pure
statements and are NOT decided here.
"""

import numpy as np

from ..kernel import World, Violation, Discard, SutError, arr_rng
from .. import meshlib, simlib, refs, seams


def make_law(p):
    from EasyFEA import Models

    H = Models.HyperElastic
    k = p["law"]
    if k == "NeoHookean":
        return H.NeoHookean(p["dim"], K=p["K"], thickness=p["thickness"])
    if k == "MooneyRivlin":
        return H.MooneyRivlin(p["dim"], K1=p["K1"], K2=p["K2"], K=p["K"], thickness=p["thickness"])
    if k == "CiarletGeymonat":
        return H.CiarletGeymonat(p["dim"], K1=p["K1"], K2=p["K2"], K=p["K"], thickness=p["thickness"])
    if k == "SaintVenantKirchhoff":
        return H.SaintVenantKirchhoff(p["dim"], lmbda=p["lmbda"], mu=p["mu"], thickness=p["thickness"])
    if k == "HolzapfelOgden":
        a = p["angle"]
        T1 = np.array([np.cos(a), np.sin(a), 0.0])
        T2 = np.array([-np.sin(a), np.cos(a), 0.0])
        return H.HolzapfelOgden(p["dim"], C0=p["C"][0], C1=p["C"][1], C2=p["C"][2], C3=p["C"][3], C4=p["C"][4], C5=p["C"][5], C6=p["C"][6], C7=p["C"][7],
                                K=p["K"], Mu1=p["Mu1"], Mu2=p["Mu2"], T1=T1, T2=T2, ks=p["ks"], thickness=p["thickness"])
    raise KeyError(k)


class HyperWorld(World):
    PROPERTY = "C18"
    ENGINE = "hyper"
    ASSUMPTIONS = [
        "only the discrete energy-balance clause is decided (seeded trajectories); W = 0 and zero residual are checked at the reference state each run starts from; derivative consistency and objectivity are not decided",
        "energy tolerance: 1e-5 of the energy scale of the run (Newton tolerances absTol 1e-7 / relTol 1e-12 on problems of unit size); runs with a non-converging or inverted (det F < 0) step are discarded and counted",
        "the mass matrix used for the kinetic energy is the one the simulation assembles (its correctness is C02)",
    ]

    @classmethod
    def gen_config(cls, rng, tier, faults):
        if rng.random() < 0.25:
            # the surface operators (follower pressure, penalty contact) wired into a HyperElastic subclass the way the
            # repository's examples do: see engines/hyper_surf.py
            from .hyper_surf import gen_surf_config

            return {"surf": gen_surf_config(rng, tier), "nops": int(rng.integers(10, 31)), "faults": bool(faults)}
        three = tier == "thorough" and rng.random() < 0.15
        dim = 3 if three else 2
        law = ["NeoHookean", "MooneyRivlin", "CiarletGeymonat", "SaintVenantKirchhoff", "HolzapfelOgden"][int(rng.integers(5))]
        p = {"law": law, "dim": dim, "thickness": float(np.round(rng.uniform(0.5, 2), 3))}
        if law == "HolzapfelOgden":
            # fibre-reinforced law with every term switched on (isotropic exponential, two fibre families, coupling,
            # volumetric and the two Mu terms)
            p.update(C=[float(np.round(rng.uniform(2, 10), 2)), float(np.round(rng.uniform(1, 4), 2)), float(np.round(rng.uniform(5, 40), 2)), float(np.round(rng.uniform(1, 5), 2)),
                        float(np.round(rng.uniform(5, 40), 2)), float(np.round(rng.uniform(1, 5), 2)), float(np.round(rng.uniform(1, 10), 2)), float(np.round(rng.uniform(1, 5), 2))],
                     K=float(np.round(rng.uniform(50, 300), 2)), Mu1=float(np.round(rng.uniform(5, 50), 2)), Mu2=float(np.round(rng.uniform(5, 50), 2)),
                     ks=float(np.round(rng.uniform(20, 100), 1)), angle=float(np.round(rng.uniform(0, np.pi), 3)))
        elif law == "NeoHookean":
            p["K"] = float(np.round(rng.uniform(20, 200), 2))
        elif law in ("MooneyRivlin", "CiarletGeymonat"):
            p.update(K1=float(np.round(rng.uniform(20, 100), 2)), K2=float(np.round(rng.uniform(5, 50), 2)), K=float(np.round(rng.uniform(50, 300), 2)))
        else:
            p.update(lmbda=float(np.round(rng.uniform(20, 200), 2)), mu=float(np.round(rng.uniform(20, 100), 2)))
        mesh = (["quad4_a", "tri3_a", "quad4_b", "tri6_a"] if dim == 2 else ["hexa8_a"])[int(rng.integers(4 if dim == 2 else 1))]
        cfg = {
            "params": p, "mesh": mesh, "rho": float(np.round(rng.uniform(0.5, 3), 3)), "clamped": bool(rng.random() < 0.7),
            "stress": ["gonzalez", "gonzalez", "quadrature", "quadrature_fixed", "quadrature_fixed", "pointwise"][int(rng.integers(6))],
            "nPoints": [1, 2, 3, 5, 4, 6, 4, 6][int(rng.integers(8))],
            # non-conservative ingredients (no energy oracle then; the Newton system must still be the derivative of the
            # residual): Kelvin-Voigt viscosity and an active fibre stress
            "eta": float(np.round(rng.uniform(0.01, 1.0), 3)) if rng.random() < 0.2 else 0.0,
            "active": [float(np.round(rng.uniform(0.5, 5.0), 3)), float(np.round(rng.uniform(0, np.pi), 3))] if rng.random() < 0.2 else None,
            # the energy statement is about the midpoint scheme; a third of the runs step another scheme (no energy oracle
            # then): the system of a Newton iteration must be the derivative of the residual under every one of them
            "scheme": ["midpoint", "midpoint", "midpoint", "midpoint", "newmark", "hht", "euler_implicit"][int(rng.integers(7))],
            "preload": float(np.round(rng.uniform(-0.15, 0.15), 4)),
            "kick": float(np.round(rng.uniform(0, 0.5), 3)), "dt": float(np.round(10 ** rng.uniform(-2.3, -0.7), 5)),
            "nops": int(rng.integers(10, 31 if tier == "quick" else 61)), "faults": bool(faults),
        }
        if cfg["scheme"] != "midpoint" and cfg["stress"] == "gonzalez":
            cfg["stress"] = "quadrature_fixed"  # the discrete gradient is a midpoint construction (rejected elsewhere)
        return cfg

    def __init__(self, cfg, ctx):
        super().__init__(cfg, ctx)
        import EasyFEA
        from EasyFEA.Simulations import Solvers

        self.clock = seams.ClockSeam(ctx, EasyFEA)
        self.solver = seams.SolverSeam(ctx, Solvers)
        from EasyFEA import Simulations

        if "surf" in cfg:
            from .hyper_surf import SurfHyper

            try:
                self.surf = SurfHyper(cfg, ctx, self.solver)
            except BaseException:
                self.close()
                raise
            self.gen_op = self.surf.gen_op
            self.apply = self.surf.apply
            self.observe = self.surf.observe
            self.abstract_state = self.surf.abstract_state
            return
        raw = meshlib.library()[cfg["mesh"]]
        self.tags = simlib.boundary_tags(raw)
        self.dim = cfg["params"]["dim"]
        with ctx.sut():
            self.mat = make_law(cfg["params"])
            self.sim = Simulations.HyperElastic(meshlib.build(raw), self.mat, absTol=1e-7, relTol=1e-12, incTol=1e-13, maxIter=25)
            self.sim.rho = cfg["rho"]
            if cfg.get("eta"):
                self.mat.eta = cfg["eta"]
            self.pt = self.sim.problemType
            self.un = list(self.sim.Get_unknowns())
            # two boundary entities without a common node (faces of a 3D mesh may share an edge, and a node entered
            # in two Dirichlet conditions holds the sum of the entries)
            sets = [set(np.asarray(self.sim.mesh.Nodes_Tags(t)).tolist()) for t in self.tags]
        pair = next(((i, j) for i in range(len(sets)) for j in range(i + 1, len(sets)) if sets[i] and sets[j] and not (sets[i] & sets[j])), None)
        if pair is None:
            self.close()
            raise Discard("no two disjoint boundary entities on this mesh")
        self.tagA, self.tagB = self.tags[pair[0]], self.tags[pair[1]]
        self.dt = cfg["dt"]
        self.M = None
        self.rho = cfg["rho"]
        self.E0 = None
        self.Escale = None
        self.saved = []
        self.steps = 0
        # which configurations conserve KE + W exactly: the discrete gradient, the adaptive strain-path rule (to its
        # tolerance) and any fixed strain-path rule when dW/de is linear in the strain (Saint-Venant-Kirchhoff: a rule
        # with one point or more integrates a linear integrand exactly)
        self.conserving = cfg["stress"] in ("gonzalez", "quadrature") or (cfg["stress"] == "quadrature_fixed" and cfg["params"]["law"] == "SaintVenantKirchhoff")
        if cfg.get("eta") or cfg.get("active") or cfg.get("scheme", "midpoint") != "midpoint":
            self.conserving = False
        try:
            self._reference_state_checks()
            self._apply_active()
            self._preload_and_release()
        except BaseException:
            self.close()  # the seams are process-global: never leave them installed
            raise

    def _apply_active(self):
        """The active fibre stress is switched on after the reference-state checks (it is a load: the body no longer
        rests at u = 0)."""
        cfg = self.cfg
        if not cfg.get("active"):
            return
        from EasyFEA import MatrixType
        from EasyFEA.FEM._linalg import FeArray

        tau, ang = cfg["active"]
        with self.ctx.sut():
            g = self.sim.mesh.groupElem
            nPg = g.Get_gauss(MatrixType.rigi).nPg
            T = np.tile(np.array([np.cos(ang), np.sin(ang), 0.0]), (g.Ne, nPg, 1))
            self.mat.Set_active_stress_vec(FeArray.asfearray(T))
            self.mat.active_stress = tau

    def close(self):
        self.solver.close()
        self.clock.close()

    # ------------------------------------------------------------------
    def _clamp(self):
        sim = self.sim
        with self.ctx.sut():
            sim.Bc_Init()
            if self.cfg["clamped"]:
                sim.add_dirichlet(sim.mesh.Nodes_Tags(self.tagA), [0.0] * len(self.un), self.un)

    def _reference_state_checks(self):
        """W = 0 and zero internal force in the reference configuration (the state every run starts from)."""
        sim, ctx = self.sim, self.ctx
        with ctx.sut():
            W = float(sim._Calc_W())
            sim.add_dirichlet(sim.mesh.Nodes_Tags(self.tagA), [0.0] * len(self.un), self.un)
            sim.Solve()  # static, zero load: Newton must accept u = 0 at once
            K, _, _, F = sim.Get_K_C_M_F(self.pt)
            u = sim.displacement
        kscale = max(refs.maxabs(K.data), 1e-300)
        if abs(W) > 1e-12 * kscale:
            raise Violation("energy-not-zero-in-reference-state", f"W(u=0) = {W:.3e} [{self.cfg['params']['law']}]")
        if refs.maxabs(F.toarray()) > 1e-10 * kscale:
            raise Violation("residual-not-zero-in-reference-state", f"max|internal force(u=0)| = {refs.maxabs(F.toarray()):.3e} (stiffness scale {kscale:.3e}) [{self.cfg['params']['law']}]")
        if refs.maxabs(u) > 1e-12:
            raise Violation("reference-state-not-equilibrium", f"the unloaded static solve moved the body: max|u| = {refs.maxabs(u):.3e}")
        ctx.checked(3)

    def _set_dynamic(self, dt):
        from EasyFEA import AlgoType

        sim = self.sim
        with self.ctx.sut():
            sch = self.cfg.get("scheme", "midpoint")
            if sch == "newmark":
                sim.Solver_Set_Hyperbolic_Algorithm(dt, algo=AlgoType.newmark, beta=0.3, gamma=0.6)
            elif sch == "hht":
                sim.Solver_Set_Hyperbolic_Algorithm(dt, algo=AlgoType.hht, alpha=0.1)
            else:
                sim.Solver_Set_Hyperbolic_Algorithm(dt, algo=AlgoType(sch) if sch != "midpoint" else AlgoType.midpoint)
            st = self.cfg["stress"]
            if st == "gonzalez":
                sim.Solver_Set_Stress(sim.StressType.gonzalez)
            elif st == "quadrature":
                # adaptive rule: nPoints is the starting level of the nested chain
                sim.Solver_Set_Stress(sim.StressType.quadrature, nPoints=3 if self.cfg.get("nPoints", 3) > 1 else 1, energyTol=1e-10)
            elif st == "quadrature_fixed":
                sim.Solver_Set_Stress(sim.StressType.quadrature, nPoints=self.cfg.get("nPoints", 3))
            else:
                sim.Solver_Set_Stress(sim.StressType.pointwise)
        self.dt = dt

    def _preload_and_release(self):
        sim, ctx, cfg = self.sim, self.ctx, self.cfg
        # static preload (clamped bodies only), then release with an optional velocity kick
        if cfg["clamped"] and cfg["preload"] != 0.0:
            try:
                with ctx.sut():
                    sim.Bc_Init()
                    sim.add_dirichlet(sim.mesh.Nodes_Tags(self.tagA), [0.0] * len(self.un), self.un)
                    sim.add_dirichlet(sim.mesh.Nodes_Tags(self.tagB), [cfg["preload"]], [self.un[-1]])
                    sim.Solve()
                    # the preloaded configuration is kept as iteration 0: a static iteration (no velocity, no
                    # acceleration) that the dynamic run may be rolled back to (step-size studies do that)
                    sim.Save_Iter()
                    self.saved.append((0.0, float(sim._Calc_W()), self.rho))
                    self.static0 = True
            except SutError as e:
                if simlib.is_nonconvergence(e.exc):
                    raise Discard("static preload did not converge")
                raise
        self._clamp()
        self._set_dynamic(cfg["dt"])
        st = simlib.get_state(sim)[simlib.pt_key(self.pt)]
        u0 = st[0]
        n = u0.size
        rng = arr_rng(int(cfg["kick"] * 1e6) + 17)
        v0 = rng.normal(size=n) * cfg["kick"]
        with ctx.sut():
            known = np.asarray(sim.Bc_dofs_Dirichlet(self.pt), dtype=int)
        v0[known] = 0.0
        with ctx.sut():
            sim._Set_solutions(self.pt, u0.copy(), v0, np.zeros(n))
        self.u0, self.v0 = u0.copy(), v0.copy()

    def _saved_energy(self, i):
        ent = self.saved[i]
        if ent is None:
            return None
        KE, W, rho = ent
        return KE * (self.rho / rho) + W

    def _energy(self):
        sim = self.sim
        with self.ctx.sut():
            W = float(sim._Calc_W())
            v = sim._Get_v_n(self.pt)
        KE = 0.5 * float(v @ (self.M @ v))
        return KE + W, KE, W

    # ------------------------------------------------------------------
    def gen_op(self, rng, frng):
        if getattr(self, "ended", False):
            return None
        w = {"step": 10, "set_active": 2.0 if self.cfg.get("active") else 0, "set_dt": 1.5, "set_rho": 0.8, "save_iter": 1.0, "rollback": 0.6 if self.saved else 0, "tangent": 2.0 if self.cfg["stress"] != "quadrature" else 0,
             "energy_gradient": 1.5 if not (self.cfg.get("active") or self.cfg.get("eta")) else 0}
        names = sorted(w)
        pr = np.array([w[k] for k in names], dtype=float)
        name = names[int(rng.choice(len(names), p=pr / pr.sum()))]
        op = {"op": name}
        if name == "step":
            op["n"] = int(rng.integers(1, 5))
            if self.cfg.get("faults") and frng.random() < 0.25:
                op["fault"] = {"seam": "solver", "kind": ["memerr", "singular"][int(frng.integers(2))], "k": int(frng.integers(1, 4))}
        elif name == "set_dt":
            op["dt"] = float(np.round(self.dt * 10 ** rng.uniform(-0.5, 0.5), 6))
        elif name == "set_rho":
            op["rho"] = float(np.round(self.rho * 10 ** rng.uniform(-0.6, 0.6), 4))
        elif name == "set_active":
            # a fibre-angle sweep / an activation curve on one material object: the direction is registered again (same or
            # another tension), or only the tension is changed
            op["angle"] = float(np.round(rng.uniform(0, np.pi), 3)) if rng.random() < 0.75 else None
            op["tau"] = float(np.round(rng.uniform(0.5, 5.0), 3)) if rng.random() < 0.4 else None
        elif name == "rollback":
            op["i"] = int(rng.integers(len(self.saved)))
        elif name == "tangent":
            op.update(aseed=int(rng.integers(1 << 30)), theta=float(np.round(rng.uniform(0.1, 1.5), 3)), _mut=False)
        elif name == "energy_gradient":
            op.update(aseed=int(rng.integers(1 << 30)), _mut=False)
        return op

    def _one_step(self, fault):
        sim, ctx = self.sim, self.ctx
        before = simlib.get_state(sim)
        if fault:
            self.solver.arm(fault)
        failed = None
        try:
            with ctx.sut():
                sim.Solve()
        except SutError as e:
            failed = e
        finally:
            pending = self.solver.disarm() if fault else False
        if fault and not pending:
            if failed is None:
                raise Violation("fault-swallowed", "an injected back-end failure did not surface from Solve()")
            after = simlib.get_state(sim)
            for pt in before:
                for a, b, nm in zip(after[pt], before[pt], "uva"):
                    if not np.array_equal(a, b):
                        raise Violation("failed-step-changed-state", f"{nm}_n changed by a Newton step that raised {failed}")
            ctx.probe("newton_failed_then_retried")
            failed = None
            try:
                with ctx.sut():
                    sim.Solve()
            except SutError as e:
                failed = e
        if failed is not None:
            if simlib.is_nonconvergence(failed.exc):
                if self.cfg.get("scheme", "midpoint") != "midpoint":
                    # the strain-path stress under Newmark / HHT is not the subject of the energy statement and its
                    # trajectories do blow up after a while: the run ends here, what was checked so far stands
                    self.ended = True
                    ctx.probe("non_midpoint_run_ended_by_nonconvergence")
                    return
                raise Discard("a dynamic step did not converge (or inverted an element)")
            raise Violation("step-raises", f"Solve raised {failed}", failed.site)
        ctx.phys_time += self.dt
        self.steps += 1

    def apply(self, op):
        ctx, sim = self.ctx, self.sim
        name = op["op"]

        if name == "set_dt":
            self._set_dynamic(op["dt"])
            ctx.probe("dt_changed")
            return "ok"

        if name == "set_active":
            if not self.cfg.get("active"):
                return "skip"
            from EasyFEA import MatrixType
            from EasyFEA.FEM._linalg import FeArray

            with ctx.sut():
                if op.get("angle") is not None:
                    g = sim.mesh.groupElem
                    nPg = g.Get_gauss(MatrixType.rigi).nPg
                    T = np.tile(np.array([np.cos(op["angle"]), np.sin(op["angle"]), 0.0]), (g.Ne, nPg, 1))
                    self.mat.Set_active_stress_vec(FeArray.asfearray(T))
                    ctx.probe("active_direction_registered_again")
                if op.get("tau") is not None:
                    self.mat.active_stress = op["tau"]
            return "ok"

        if name == "save_iter":
            with ctx.sut():
                sim.Save_Iter()
            self.saved.append(self._energy()[1:] + (self.rho,) if self.M is not None else None)
            return "ok"

        if name == "set_rho":
            # a density study on one simulation object: the mass matrix of the energy balance is the one assembled first,
            # scaled by the ratio of the densities (not re-read from the simulation, which may have memoised it)
            with ctx.sut():
                sim.rho = op["rho"]
            if self.M is not None:
                self.M = self.M * (op["rho"] / self.rho)
            self.rho = op["rho"]
            if self.M is not None:
                E, KE, W = self._energy()
                self.E0 = E
                self.Escale = max(self.Escale, abs(KE) + abs(W))
            ctx.probe("density_changed_between_steps")
            return "ok"

        if name == "rollback":
            if op["i"] >= len(self.saved):
                return "skip"
            with ctx.sut():
                sim.Set_Iter(op["i"])
            self._clamp()
            ctx.probe("rollback")
            Esaved = self._saved_energy(op["i"])
            if self.M is not None and Esaved is not None:
                # back on the same trajectory: the energy is the one recorded when the step was saved (its kinetic part
                # scaled if the density was changed since)
                E = self._energy()[0]
                if abs(E - Esaved) > 1e-9 * self.Escale:
                    raise Violation("rollback-changes-energy", f"KE + W after Set_Iter({op['i']}) = {E:.10e}, was {Esaved:.10e} when saved" + (" (a static iteration: the body is at rest there)" if op["i"] == 0 and getattr(self, "static0", False) else ""))
                ctx.checked()
            # the trajectory continues from the restored state: its constant is the energy of that state (the one
            # recorded when the iteration was saved, checked above; a static iteration is a body at rest)
            st = simlib.get_state(sim)[simlib.pt_key(self.pt)]
            self.u0, self.v0 = st[0].copy(), st[1].copy()
            if self.M is not None:
                self.E0 = Esaved if Esaved is not None else self._energy()[0]
            if op["i"] == 0 and getattr(self, "static0", False):
                ctx.probe("rollback_to_static_preload")
            return "ok"

        if name == "tangent":
            return self._tangent_check(op)

        if name == "energy_gradient":
            return self._energy_gradient_check(op)

        if name == "step":
            for k in range(op["n"]):
                self._one_step(op.get("fault") if (k == 0 and self.cfg.get("faults")) else None)
                if getattr(self, "ended", False):
                    return "ended"
                if self.M is None:
                    with ctx.sut():
                        _, _, M, _ = sim.Get_K_C_M_F(self.pt)
                    self.M = M
                    W0 = self._W_of(self.u0)
                    KE0 = 0.5 * float(self.v0 @ (M @ self.v0))
                    self.E0 = KE0 + W0
                    self.Escale = max(abs(KE0) + abs(W0), 1e-300)
                    if self.Escale < 1e-10:
                        raise Discard("the body is at rest in its reference state: nothing to conserve")
                if self.cfg["stress"] == "quadrature" and self.conserving:
                    # the adaptive rule promises its tolerance only while it can still refine (documented cap: 33 points)
                    npts = getattr(sim, "_HyperElastic__nPts_e", None)
                    if npts is not None and np.size(npts) and int(np.max(npts)) >= 33:
                        self.conserving = False
                        ctx.probe("adaptive_rule_hit_its_cap")
                E, KE, W = self._energy()
                if not np.isfinite(E):
                    raise Violation("energy-not-finite", "KE + W is NaN/Inf after a converged step")
                if self.conserving and abs(E - self.E0) > 1e-5 * self.Escale and self.cfg["stress"] == "quadrature" and self._adaptive_rule_at_its_cap():
                    self.conserving = False
                    ctx.probe("adaptive_rule_hit_its_cap")
                if self.conserving and abs(E - self.E0) > 1e-5 * self.Escale:
                    raise Violation("energy-not-conserved", f"[{self.cfg['params']['law']}, {self.cfg['stress']}, dt {self.dt}, {'clamped' if self.cfg['clamped'] else 'free'}] KE + W drifted from {self.E0:.10e} to {E:.10e} after {self.steps} steps (scale {self.Escale:.3e})")
                ctx.checked()
            return "ok"

        raise ValueError(name)

    TRIAL_ATTR = "_Simu__current_newton_raphson_solution"

    def _adaptive_rule_at_its_cap(self) -> bool:
        """Did the adaptive strain-path rule reach its documented cap (33 points) in the last assembly?  Read from the
        private diagnostic when it is there, otherwise through the public route: a saved iteration holds 'nPts_e'."""
        sim = self.sim
        npts = getattr(sim, "_HyperElastic__nPts_e", None)
        if npts is None:
            try:
                with self.ctx.sut():
                    sim.Save_Iter()
                    npts = sim.Get_results(-1).get("nPts_e")
                self.saved.append(None)
            except SutError:
                return True  # cannot be observed: no verdict on this run's energy
            if npts is None:
                return True
        return bool(np.size(npts)) and int(np.max(npts)) >= 33

    def _tangent_check(self, op):
        """The system a Newton iteration solves, A = coefK K + coefC C + coefM M with right-hand side -R(u), at a trial
        u_{n+1} away from u_n (so that the step increment is finite) with the scheme, stress option and previous state
        the trajectory has reached: A d must be the directional derivative of R (central difference)."""
        sim, ctx = self.sim, self.ctx
        if not hasattr(sim, self.TRIAL_ATTR):
            ctx.probe("tangent_check_unavailable")
            return "skip"
        key = simlib.pt_key(self.pt)
        u_n, v_n, a_n = simlib.get_state(sim)[key]
        rng = arr_rng(op["aseed"])
        n = u_n.size
        with ctx.sut():
            known = np.asarray(sim.Bc_dofs_Dirichlet(self.pt), dtype=int)
        free = np.setdiff1d(np.arange(n), known)
        inc = op["theta"] * self.dt * v_n
        if refs.maxabs(inc) > 0.05:
            inc = inc * (0.05 / refs.maxabs(inc))  # a trial state a Newton loop could meet: bodies are of unit size
        trial = u_n + inc + rng.normal(size=n) * 2e-3
        trial[known] = u_n[known]
        d = np.zeros(n)
        d[free] = rng.uniform(-1, 1, free.size)
        h = 1e-6
        old = getattr(sim, self.TRIAL_ATTR)

        def system(u):
            setattr(sim, self.TRIAL_ATTR, u.copy())
            sim.Need_Update()
            K, C, M, F = sim.Assembly(self.pt)
            return K, C, M, -F.toarray().ravel()

        try:
            with ctx.sut():
                cK, cC, cM = sim._Solver_Get_K_C_M_coefs_for_time_scheme()
                K, C, M, R0 = system(trial)
                _, _, _, Rp = system(trial + h * d)
                _, _, _, Rm = system(trial - h * d)
        except SutError as e:
            if isinstance(e.exc, AssertionError):
                ctx.probe("tangent_trial_state_rejected")
                return "rejected"  # det F < 0 at the trial state
            raise Violation("assembly-raises", f"assembling the Newton system at a trial state raised {e}", e.site)
        finally:
            setattr(sim, self.TRIAL_ATTR, old)
            sim.Need_Update()
        A = cK * K + cC * C + cM * M
        if not (np.all(np.isfinite(R0)) and np.all(np.isfinite(Rp)) and np.all(np.isfinite(Rm)) and np.all(np.isfinite(A.data))):
            ctx.probe("tangent_trial_state_overflows")
            return "rejected"  # the exponential laws overflow far from the trajectory: nothing to differentiate
        Ad = (A @ d)[free]
        fd = ((Rp - Rm) / (2 * h))[free]
        scale = max(refs.maxabs((abs(A) @ np.abs(d))[free]), 1e-300)
        noise = 1e-14 * max(refs.maxabs(R0), refs.maxabs(Rp)) / h
        err = refs.maxabs(Ad - fd)
        ctx.reached("tangent_defect_decade", int(np.floor(np.log10(max(err / (1e-5 * scale + 100 * noise), 1e-30)))))
        if not err <= 1e-5 * scale + 100 * noise:
            raise Violation("tangent-not-derivative-of-residual", f"[{self.cfg['params']['law']}, {self.cfg['stress']} nPoints {self.cfg.get('nPoints')}, dt {self.dt}] A.d differs from the central difference of the residual by {err:.3e} (scale {scale:.3e})")
        ctx.checked()
        return "ok"

    def _energy_gradient_check(self, op):
        """'The stress is the derivative of the stored energy', at the assembled level and on a state of the trajectory:
        the internal force a brand-new static simulation (pointwise stress) assembles at u, contracted with a direction d,
        must be the central difference of the total stored energy along d."""
        sim, ctx = self.sim, self.ctx
        if not hasattr(sim, self.TRIAL_ATTR):
            ctx.probe("energy_gradient_check_unavailable")
            return "skip"
        from EasyFEA import Simulations

        key = simlib.pt_key(self.pt)
        u_n = simlib.get_state(sim)[key][0]
        rng = arr_rng(op["aseed"])
        n = u_n.size
        u = u_n + rng.normal(size=n) * 1e-3
        d = rng.uniform(-1, 1, n)
        h = 1e-5
        try:
            with ctx.sut():
                tw = Simulations.HyperElastic(meshlib.build(meshlib.library()[self.cfg["mesh"]]), make_law(self.cfg["params"]))
                setattr(tw, self.TRIAL_ATTR, u.copy())
                tw.Need_Update()
                Rint = -tw.Assembly(tw.problemType)[3].toarray().ravel()
                Ws = []
                for uu in (u + h * d, u - h * d, u):
                    tw._Set_solutions(tw.problemType, uu.copy())
                    Ws.append(float(tw._Calc_W()))
                # the same deformed body turned as a whole: x' = Q (X + u)
                dim = self.dim
                X = np.asarray(tw.mesh.coord)[:, :dim]
                th = float(rng.uniform(0.2, 2.5))
                Q = np.eye(dim)
                Q[:2, :2] = [[np.cos(th), -np.sin(th)], [np.sin(th), np.cos(th)]]
                if dim == 3:
                    ph = float(rng.uniform(0.2, 2.5))
                    Q2 = np.eye(3)
                    Q2[1:, 1:] = [[np.cos(ph), -np.sin(ph)], [np.sin(ph), np.cos(ph)]]
                    Q = Q2 @ Q
                U = u.reshape(-1, dim)
                ur = ((X + U) @ Q.T - X).ravel()
                tw._Set_solutions(tw.problemType, ur.copy())
                Wr = float(tw._Calc_W())
                setattr(tw, self.TRIAL_ATTR, ur.copy())
                tw.Need_Update()
                Rr = -tw.Assembly(tw.problemType)[3].toarray().ravel()
        except SutError as e:
            if isinstance(e.exc, AssertionError):
                return "rejected"
            raise Violation("assembly-raises", f"a static assembly / energy evaluation at a state of the trajectory raised {e}", e.site)
        if not (np.all(np.isfinite(Rint)) and np.all(np.isfinite(Ws))):
            return "rejected"
        fd = (Ws[0] - Ws[1]) / (2 * h)
        an = float(Rint @ d)
        scale = float(np.abs(Rint) @ np.abs(d))
        noise = 1e-13 * max(abs(Ws[2]), 1e-300) / h
        if not abs(fd - an) <= 1e-5 * scale + 100 * noise:
            raise Violation("internal-force-not-derivative-of-energy", f"[{self.cfg['params']['law']}] R_int(u).d = {an:.8e}, central difference of the stored energy along d = {fd:.8e} (scale {scale:.3e}, W = {Ws[2]:.3e})")
        ctx.checked()
        ctx.probe("energy_gradient_checked")
        # objectivity: the stored energy does not see the rotation, the internal forces turn with the body
        wscale = max(abs(Ws[2]), 1e-300)
        if np.isfinite(Wr) and np.all(np.isfinite(Rr)):
            if not abs(Wr - Ws[2]) <= 1e-9 * wscale + 1e-13 * float(np.abs(Rint) @ np.abs(u)):
                raise Violation("energy-changed-by-rigid-rotation", f"[{self.cfg['params']['law']}] W = {Ws[2]:.12e} for the deformed body, {Wr:.12e} for the same body turned as a whole")
            Rq = (Rint.reshape(-1, self.dim) @ Q.T).ravel()
            if not refs.maxabs(Rr - Rq) <= 1e-8 * max(refs.maxabs(Rint), 1e-300) + 1e-12 * wscale:
                raise Violation("internal-force-not-objective", f"[{self.cfg['params']['law']}] internal forces of the turned body differ from the turned internal forces by {refs.maxabs(Rr - Rq):.3e} (scale {refs.maxabs(Rint):.3e})")
            ctx.checked()
            ctx.probe("objectivity_checked")
        return "ok"

    def _W_of(self, u):
        sim = self.sim
        st = simlib.get_state(sim)
        key = simlib.pt_key(self.pt)
        with self.ctx.sut():
            sim._Set_solutions(self.pt, u.copy(), st[key][1].copy(), st[key][2].copy())
            W = float(sim._Calc_W())
            sim._Set_solutions(self.pt, st[key][0].copy(), st[key][1].copy(), st[key][2].copy())
        return W

    def observe(self):
        st = simlib.get_state(self.sim)
        return [st[k] for k in sorted(st)]

    def abstract_state(self):
        return (self.cfg["params"]["law"], self.cfg["stress"], self.cfg["clamped"], min(self.steps // 5, 8), len(self.saved) > 0, round(np.log10(self.dt), 1))
