"""Disk actor of engine `fresh` (C14): the same statement -- after any sequence of public modifications the next matrices
and solution are those of a simulation constructed directly in the final configuration -- for sequences that go through
the disk: `Save(folder)` (after which the meshes of the history are files and `Set_Iter` onto another mesh reads one back),
`Load_Simu(folder)` (the run continues with the loaded object), and then the ordinary modifications: moving / re-coordinating
the mesh *the simulation currently works on* (`simu.mesh.Rotate(...)`, whatever object that is by now), writing a material
parameter, changing the prescribed value, replacing the mesh.

Reference: a brand-new Elastic / Thermal simulation built from the raw arrays of the mesh the live simulation holds now
(connectivity, current coordinates, tags), a new model with the current parameter values, the conditions added again.
Single simulation, linear types only (the staleness under test is that of the assembled operators).
"""

import numpy as np

from ..kernel import Violation, SutError, arr_rng
from .. import meshlib, simlib, refs, seams


class DiskFresh:
    def __init__(self, cfg, ctx):
        self.cfg, self.ctx = cfg, ctx
        c = cfg["disk"]
        self.c = c
        self.type = c["type"]
        self.params = dict(c["params"])
        lib = meshlib.library()
        self.raws = [lib[n] for n in c["meshes"]]
        from EasyFEA.Simulations import _simu
        from EasyFEA.FEM import _mesh

        self.disk = seams.SimDisk(ctx)
        self.disk.install(_simu, _mesh)
        try:
            with ctx.sut():
                self.model = simlib.make_model(c["kind"], self.params)
                X = np.array(self.raws[1].coord, dtype=float)
                X[:, 0] *= 1.25  # the second mesh never coincides with the first, even when it is the same library mesh
                self.meshes = [meshlib.build(self.raws[0]), meshlib.build(self.raws[1], coord=X)]
                self.sim = simlib.make_sim(self.type, self.meshes[0], self.model)
                self.un = list(self.sim.Get_unknowns())
        except BaseException:
            self.close()
            raise
        self.mesh_i = 0
        self.tags = [simlib.boundary_tags(r) for r in self.raws]
        self.val = 0.01
        self.iters = []  # mesh index of every saved iteration
        self.saved = set()
        self._bcs()

    def close(self):
        self.disk.close()

    # ------------------------------------------------------------------
    def _add_bcs(self, sim, tags):
        m = sim.mesh
        sim.Bc_Init()
        sim.add_dirichlet(m.Nodes_Tags(tags[0]), [0.0] * len(self.un), self.un)
        sim.add_dirichlet(m.Nodes_Tags(tags[2 if len(tags) > 2 else -1]), [float(self.val)], [self.un[-1]])

    def _bcs(self):
        with self.ctx.sut():
            self._add_bcs(self.sim, self.tags[self.mesh_i])

    def gen_op(self, rng, frng):
        q = getattr(self, "_queue", [])
        if q:
            return q.pop(0)
        if len(set(self.iters)) < 2 and rng.random() < 0.3:
            # a history over both meshes first
            self._queue = [{"op": "save_iter"}, {"op": "setmesh", "mesh": 1 - self.mesh_i}, {"op": "solve"}, {"op": "save_iter"}]
            return {"op": "solve"}
        if self.iters and len(set(self.iters)) > 1 and rng.random() < 0.3:
            # save the run, go back to an iteration on the other mesh (read from its file), move that mesh, read
            other = [i for i, mi in enumerate(self.iters) if mi != self.mesh_i]
            self._queue = [{"op": "set_iter", "i": other[int(rng.integers(len(other)))]}, {"op": "read"}, {"op": "move", "kind": ["rotate", "translate", "coord"][int(rng.integers(3))], "aseed": int(rng.integers(1 << 30))}, {"op": "read"}]
            if rng.random() < 0.4:
                self._queue.insert(0, {"op": "load_simu", "to": "A"})
            return {"op": "save", "to": "A"}
        w = {"solve": 3, "save_iter": 3, "setmesh": 1.5, "save": 1.5, "load_simu": 1.0 if self.saved else 0, "set_iter": 2 if self.iters else 0, "move": 3, "param": 2, "value": 1, "read": 4}
        names = sorted(w)
        p = np.array([w[k] for k in names], dtype=float)
        name = names[int(rng.choice(len(names), p=p / p.sum()))]
        op = {"op": name}
        if name == "setmesh":
            op["mesh"] = 1 - self.mesh_i
        elif name in ("save", "load_simu"):
            op["to"] = ["A", "B"][int(rng.integers(2))]
            if name == "load_simu":
                ks = sorted(self.saved)
                op["to"] = ks[int(rng.integers(len(ks)))]
        elif name == "set_iter":
            op["i"] = int(rng.integers(len(self.iters)))
        elif name == "move":
            op.update(kind=["rotate", "translate", "coord", "symmetry"][int(rng.integers(4))], aseed=int(rng.integers(1 << 30)))
        elif name == "param":
            nm, val = simlib.gen_param_write(self.c["kind"], rng)
            op.update(name=nm, val=val)
        elif name == "value":
            op["val"] = float(np.round(rng.uniform(-0.02, 0.05), 5))
        if name == "read":
            op["_mut"] = False
        return op

    # ------------------------------------------------------------------
    def apply(self, op):
        ctx, sim = self.ctx, self.sim
        name = op["op"]
        try:
            if name == "solve":
                with ctx.sut():
                    sim.Solve()
                return self._compare("after Solve", solution=True)
            if name == "save_iter":
                with ctx.sut():
                    sim.Save_Iter()
                self.iters.append(self.mesh_i)
                return "ok"
            if name == "setmesh":
                # a brand-new mesh object of the other geometry (meshes moved earlier stay what they were in the history)
                X = np.array(self.raws[op["mesh"]].coord, dtype=float)
                if op["mesh"] == 1:
                    X[:, 0] *= 1.25
                with ctx.sut():
                    sim.mesh = meshlib.build(self.raws[op["mesh"]], coord=X)
                self.mesh_i = op["mesh"]
                self._bcs()
                return "ok"
            if name == "save":
                with ctx.sut():
                    sim.Save(self.disk.path(op["to"]))
                self.saved.add(op["to"])
                self.__dict__.setdefault("save_rec", {})[op["to"]] = (dict(self.params), self.val, self.mesh_i, len(self.iters))
                ctx.probe("saved_to_disk")
                return "ok"
            if name == "load_simu":
                if op["to"] not in self.saved:
                    return "skip"
                from EasyFEA.Simulations import Load_Simu

                with ctx.sut():
                    s2 = Load_Simu(self.disk.path(op["to"]))
                if s2 is None:
                    raise Violation("load-raises", "Load_Simu returned None for a folder written by Save")
                # the loaded object is at the state of the save: parameters, prescribed value, position and history of then
                params, val, mesh_i, n = self.save_rec[op["to"]]
                if s2.Niter != n:
                    raise Violation("stale-system", f"the simulation loaded from '{op['to']}' has {s2.Niter} iterations, {n} were saved")
                self.sim = s2
                self.model = s2.model
                self.params, self.val, self.mesh_i = dict(params), val, mesh_i
                self.iters = self.iters[:n]
                self.saved = {op["to"]}
                self._bcs()
                ctx.probe("continued_with_loaded_simulation")
                return "ok"
            if name == "set_iter":
                if op["i"] >= len(self.iters):
                    return "skip"
                with ctx.sut():
                    sim.Set_Iter(op["i"])
                self.mesh_i = self.iters[op["i"]]
                self._bcs()
                ctx.probe("restored_iteration" + ("_after_save" if self.saved else ""))
                return "ok"
            if name == "move":
                rng = arr_rng(op["aseed"])
                with ctx.sut():
                    m = sim.mesh  # the mesh the simulation works on now, whatever object that is
                    if op["kind"] == "rotate":
                        m.Rotate(float(rng.uniform(10, 80)), m.center, (0, 0, 1))
                    elif op["kind"] == "translate":
                        m.Translate(float(rng.uniform(-1, 1)), float(rng.uniform(-1, 1)), 0.0)
                    elif op["kind"] == "symmetry":
                        m.Symmetry(m.center, (1, 0, 0))
                    else:
                        X = np.array(m.coord, dtype=float)
                        X[:, 0] *= float(rng.uniform(1.1, 1.6))
                        X[:, 1] *= float(rng.uniform(0.7, 0.95))
                        m.coord = X
                ctx.probe("moved_the_mesh_in_use" + ("_after_save" if self.saved else ""))
                return "ok"
            if name == "param":
                with ctx.sut():
                    simlib.write_param(self.model, self.c["kind"], self.params, op["name"], op["val"])
                return "ok"
            if name == "value":
                self.val = op["val"]
                self._bcs()
                return "ok"
            if name == "read":
                return self._compare("read")
        except SutError as e:
            raise Violation("operation-raises", f"{name} raised {e} [{self.type}, history over {len(set(self.iters))} meshes, saved to {sorted(self.saved)}]", e.site)
        raise ValueError(name)

    def _fresh(self):
        sim = self.sim
        raw = meshlib.raw_of(sim.mesh)
        model = simlib.make_model(self.c["kind"], self.params)
        f = simlib.make_sim(self.type, meshlib.build(raw), model)
        self._add_bcs(f, self.tags[self.mesh_i])
        return f

    def _compare(self, what, solution=False):
        ctx, sim = self.ctx, self.sim
        with ctx.sut():
            f = self._fresh()
            K, C, M, F = sim.Get_K_C_M_F()
            Kf, Cf, Mf, Ff = f.Get_K_C_M_F()
        for nm, a, b in (("K", K, Kf), ("M", M, Mf), ("F", F, Ff)):
            a, b = refs.dense(a), refs.dense(b)
            if a.shape != b.shape:
                raise Violation("stale-system", f"{what}: {nm} of the live simulation has shape {a.shape}, a simulation built on its current mesh {b.shape}")
            sc = max(refs.maxabs(b), 1e-300)
            if not refs.maxabs(a - b) <= 1e-9 * sc:
                raise Violation("stale-system", f"{what}: {nm} of the live simulation vs a simulation built on its current mesh and parameters: max|diff| = {refs.maxabs(a - b):.3e}, max|ref| = {sc:.3e} [{self.type}, saved to {sorted(self.saved)}, {len(self.iters)} iterations]")
            ctx.checked()
        if solution:
            with ctx.sut():
                f.Solve()
                u = np.asarray(sim._Get_u_n(sim.problemType))
                uf = np.asarray(f._Get_u_n(f.problemType))
            sc = max(refs.maxabs(uf), 1e-300)
            if u.shape != uf.shape or not refs.maxabs(u - uf) <= 1e-7 * sc:
                raise Violation("stale-solution", f"{what}: solution of the live simulation differs from that of a simulation built on its current mesh and parameters by {refs.maxabs(u - uf) if u.shape == uf.shape else 'shape'} (scale {sc:.3e})")
            ctx.checked()
        return "ok"

    def observe(self):
        st = simlib.get_state(self.sim)
        return [st[k] for k in sorted(st)]

    def abstract_state(self):
        return ("disk", self.type, self.mesh_i, len(self.iters), tuple(sorted(self.saved)))

    @staticmethod
    def gen_disk_config(rng, tier):
        lib = meshlib.library()
        st = ["Elastic", "Thermal"][int(rng.integers(2))]
        kind = simlib.SIM_MODEL[st][0]
        cands = [n for n in meshlib.names(dim=2) if lib[n].Nn <= 30 and lib[n].main[0][0] in ("TRI3", "QUAD4", "TRI6")]
        a = cands[int(rng.integers(len(cands)))]
        b = a if rng.random() < 0.5 else cands[int(rng.integers(len(cands)))]
        return {"type": st, "kind": kind, "params": simlib.gen_model_params(kind, rng, 2), "meshes": [a, b]}
