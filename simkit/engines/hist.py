"""Engine `hist` (C15): saved iterations and saved simulations restore exactly what was saved.

One live simulation on a fault-injecting simulated disk; the reference is the list of deep-copied
snapshots taken whenever an iteration was saved.
"""

import copy
import os

import numpy as np

from ..kernel import World, Violation, Discard, SutError, arr_rng, digest_of
from .. import meshlib, simlib, seams

SIMTYPES = ["Elastic", "Thermal", "PhaseField", "InElastic", "HyperElastic", "WeakForms", "Beam"]


def mesh_digest(mesh) -> str:
    parts = []
    for et in sorted(mesh.dict_groupElem, key=str):
        g = mesh.dict_groupElem[et]
        tags = meshlib.node_tags(g)
        parts.append([str(et), g.connect, g.coord, g.nodes, {k: np.sort(np.asarray(v)) for k, v in tags.items()}])
    # the global element numbering (element-wise results are returned in that order): main-dimension groups in the
    # order the mesh enumerates them
    parts.append([str(g.elemType) for g in mesh.Get_list_groupElem()])
    return digest_of(parts)


def deep_equal(a, b) -> bool:
    if isinstance(a, dict) and isinstance(b, dict):
        if set(map(str, a)) != set(map(str, b)):
            return False
        bs = {str(k): v for k, v in b.items()}
        return all(deep_equal(v, bs[str(k)]) for k, v in a.items())
    if isinstance(a, np.ndarray) or isinstance(b, np.ndarray):
        a, b = np.asarray(a), np.asarray(b)
        return a.shape == b.shape and a.dtype == b.dtype and np.array_equal(a, b, equal_nan=True)
    if isinstance(a, (list, tuple)) and isinstance(b, (list, tuple)):
        return len(a) == len(b) and all(deep_equal(x, y) for x, y in zip(a, b))
    if isinstance(a, float) and isinstance(b, float) and np.isnan(a) and np.isnan(b):
        return True
    return a == b


def first_diff(a: dict, b: dict) -> str:
    for k in sorted(set(map(str, a)) | set(map(str, b))):
        av = {str(x): y for x, y in a.items()}.get(k, "<missing>")
        bv = {str(x): y for x, y in b.items()}.get(k, "<missing>")
        if not deep_equal(av, bv):
            if isinstance(av, np.ndarray) and isinstance(bv, np.ndarray) and av.shape == bv.shape:
                return f"key '{k}': max|diff|={np.max(np.abs(av - bv)):.3e}"
            return f"key '{k}': {str(av)[:60]} vs {str(bv)[:60]}"
    return "?"


FIELD_KEYS = {
    "Elastic": [("displacement", "elastic", 0), ("speed", "elastic", 1), ("accel", "elastic", 2)],
    "Thermal": [("thermal", "thermal", 0), ("thermalDot", "thermal", 1)],
    "PhaseField": [("displacement", "elastic", 0), ("damage", "damage", 0)],
    "InElastic": [("displacement", "elastic", 0)],
    "HyperElastic": [("displacement", "hyperelastic", 0), ("speed", "hyperelastic", 1), ("accel", "hyperelastic", 2)],
    "WeakForms": [("u", "weakForm", 0), ("v", "weakForm", 1), ("a", "weakForm", 2)],
    "Beam": [("displacement", "beam", 0)],
}

def _result(sim, name, **kw):
    """'Svm@e' = the element-wise field (one value per element: its order is the element numbering of the mesh)."""
    if name.endswith("@e"):
        return sim.Result(name[:-2], nodeValues=False, **kw)
    return sim.Result(name, **kw)


RESULTS_AT_SAVE = {
    "Elastic": ["Svm", "ux", "Wdef", "Svm@e"],
    "Thermal": ["thermal"],
    "PhaseField": ["damage", "Svm", "ux"],
    "InElastic": ["Svm", "ux"],
    "HyperElastic": ["W", "ux"],
    "WeakForms": ["u"],
    "Beam": ["ux", "uy", "fx", "fy"],  # the internal forces are read from the assembled operators of the restored mesh
}


def stores_rates(simtype: str, algo: str) -> tuple:
    """(v stored, a stored) by Save_Iter/Set_Iter under this algorithm."""
    hyper = algo not in ("elliptic", "parabolic")
    if simtype in ("Elastic", "HyperElastic", "Beam"):
        return hyper, hyper
    if simtype == "Thermal":
        return algo == "parabolic", False
    if simtype == "WeakForms":
        return algo != "elliptic", hyper
    return False, False


class HistWorld(World):
    PROPERTY = "C15"
    ENGINE = "hist"
    ASSUMPTIONS = [
        "the simulated disk keeps every byte accepted by write() (process kill, not power loss)",
        "velocity/acceleration are compared after Set_Iter only when the algorithm active at restore time stores them",
        "arrays inside a dict returned by Get_results are not scribbled in place (the property speaks of reading and of later solves)",
    ]

    @classmethod
    def gen_config(cls, rng, tier, faults):
        lib = meshlib.library()
        st = SIMTYPES[int(rng.integers(len(SIMTYPES)))]
        if st == "Beam":
            # a frame of 2-3 beams with a fixed connection (its mesh comes from gmsh, one mesh per history)
            from .fresh_beam import BeamFresh

            spec = BeamFresh.gen_beam_config(rng)
            return {"type": "Beam", "dim": spec["dim"], "meshes": ["__frame__"], "kind": "beam", "params": {}, "beam": spec, "beam_copy": bool(rng.random() < 0.5), "folder0": ["", "A"][int(rng.integers(2))],
                    "nops": int(rng.integers(10, 31 if tier == "quick" else 46)), "faults": bool(faults)}
        dim = 3 if (st in ("Elastic", "Thermal") and rng.random() < 0.15) else 2
        maxNn = 40 if tier == "quick" else 80
        if st in ("PhaseField", "InElastic", "HyperElastic", "WeakForms"):
            cands = [n for n in meshlib.names(dim=2) if lib[n].Nn <= 30 and lib[n].main[0][0] in ("TRI3", "QUAD4", "TRI6")]
        else:
            cands = [n for n in meshlib.names(dim=dim) if lib[n].Nn <= maxNn]
        if st in ("Elastic", "Thermal") and dim == 2:
            # meshes with two main-dimension groups (TRI3 + QUAD4): the order of the groups fixes the element numbering
            cands = cands + ["mixed_a", "mixed_b"]
        n_mesh = 1 if st == "WeakForms" else int(rng.integers(1, 4))
        meshes = [cands[int(rng.integers(len(cands)))] for _ in range(n_mesh)]
        kinds = simlib.SIM_MODEL[st]
        kind = kinds[int(rng.integers(len(kinds)))]
        params = simlib.gen_model_params(kind, rng, dim)
        folder0 = ["", "A"][int(rng.integers(2))]
        cfg = {
            "type": st, "dim": dim, "meshes": meshes, "kind": kind, "params": params, "folder0": folder0,
            "nops": int(rng.integers(10, 31 if tier == "quick" else 46)), "faults": bool(faults),
        }
        if st in ("Elastic", "Thermal") and rng.random() < 0.2:
            # nodes that no element uses, another number of them on every mesh of the history (they are part of what a
            # saved mesh must give back, and what a simulation knows about them must follow Set_Iter onto another mesh)
            cfg["orphans"] = [int(rng.integers(0, 4)) for _ in meshes]
        return cfg

    # ------------------------------------------------------------------ build
    def __init__(self, cfg, ctx):
        super().__init__(cfg, ctx)
        import EasyFEA
        from EasyFEA.Simulations import _simu, Solvers
        from EasyFEA.FEM import _mesh

        self.E = EasyFEA
        self._simu_mod = _simu
        self.type = cfg["type"]
        self.dim = cfg["dim"]
        self.clock = seams.ClockSeam(ctx, EasyFEA)
        self.solver = seams.SolverSeam(ctx, Solvers)
        self.disk = seams.SimDisk(ctx)
        self.disk.install(_simu, _mesh)
        lib = meshlib.library()
        self.raws = [lib[n] for n in cfg["meshes"]] if self.type != "Beam" else []
        self.kind = cfg["kind"]
        self.params = dict(cfg["params"])
        self.snaps = []
        self.algo = {"algo": "elliptic"}
        self.load_val = 0.0
        self.saved = {}  # folder name -> dict(n_iter, snaps copy, state, mesh digests) at the last completed Save
        self.solved = False
        self._solved_since_commit = False
        self._extra_before_save = None
        with ctx.sut():
            folder = self.disk.path(cfg["folder0"]) if cfg["folder0"] else ""
            if self.type == "Beam":
                self._new_frame(folder)
            else:
                self.meshes = [self._build(i) for i in range(len(self.raws))]
                self.mesh_i = 0
                self.model = self._make_model(self.meshes[0])
                self.sim = simlib.make_sim(self.type, self.meshes[0], self.model, folder=folder)
        self.folder = cfg["folder0"]
        self.mesh_list = [0]  # world's mesh index per entry of the simulation's mesh list
        self._apply_load(0.0)

    def _build(self, i):
        """A brand-new mesh object number i of the configuration (with its unused nodes, if the configuration has any)."""
        raw = self.raws[i]
        if self.type == "Beam":
            # a Beam simulation works on the mesh its constructor derived from the SEG mesh: copies of that one
            m = self._frame_mesh.copy()
            if i:
                m.coord = raw.coord.copy()
            return m
        k = (self.cfg.get("orphans") or [0] * len(self.raws))[i]
        if not k:
            return meshlib.build(raw)
        z = float(raw.coord[:, 2].max())
        self.ctx.probe("mesh_with_orphan_nodes")
        return meshlib.build(raw, coord=np.vstack([raw.coord, [[10.0 + j, 10.0, z] for j in range(k)]]))

    def _new_frame(self, folder):
        from .fresh_beam import make_frame_sim

        self.sim, self.beams, self.pts = make_frame_sim(self.cfg["beam"])
        if folder:
            self.sim.folder = folder
        self.model = self.sim.model
        self.meshes = [self.sim.mesh]
        self._frame_mesh = self.sim.mesh.copy()
        self.mesh_i = 0
        self.raws = [meshlib.raw_of(self.sim.mesh, "frame")]
        if self.cfg.get("beam_copy"):
            # a second mesh of the same frame with the interior nodes of every member pulled towards the joint: same
            # topology, same number of dofs, same end points -- other element lengths, hence other operators
            raw = self.raws[0]
            X = raw.coord.copy()
            P = np.zeros((len(self.pts), 3))
            for k, pnt in enumerate(self.pts):
                P[k, : len(pnt)] = pnt
            keep = (np.linalg.norm(X[:, None, :] - P[None, :, :], axis=2) < 1e-9).any(axis=1)
            X[~keep] = P[1] + 0.85 * (X[~keep] - P[1])
            self.raws.append(meshlib.RawMesh("frame_copy", raw.groups, X, raw.tags))
            self.meshes.append(self._build(1))

    def _make_model(self, mesh):
        if self.kind.startswith("wf_"):
            return simlib.make_weakforms(mesh, self.params)
        return simlib.make_model(self.kind, self.params)

    def close(self):
        self.solver.close()
        self.clock.close()
        self.disk.close()

    # ------------------------------------------------------------------ helpers
    def _edges(self, raw):
        tags = simlib.boundary_tags(raw)
        return tags[0], tags[2] if len(tags) > 2 else tags[-1]

    def _apply_load(self, val):
        sim = self.sim
        if self.type == "Beam":
            with self.ctx.sut():
                un = list(sim.Get_unknowns())
                sim.Bc_Init()
                m = sim.mesh
                joint = np.asarray(m.Nodes_Point(self.pts[1]), dtype=int)
                for a, b in zip(joint[:-1], joint[1:]):
                    sim.add_connection_fixed(np.array([a, b]))
                sim.add_dirichlet(m.Nodes_Point(self.pts[0]), [0.0] * len(un), un)
                sim.add_dirichlet(m.Nodes_Point(self.pts[2]), [float(val)], ["y"])
            self.load_val = val
            return
        raw = self.raws[self.mesh_i]
        ta, tb = self._edges(raw)
        with self.ctx.sut():
            un = list(sim.Get_unknowns())
            sim.Bc_Init()
            mesh = sim.mesh
            sim.add_dirichlet(mesh.Nodes_Tags(ta), [0.0] * len(un), un)
            sim.add_dirichlet(mesh.Nodes_Tags(tb), [float(val)], [un[-1] if len(un) > 1 else un[0]])
        self.load_val = val

    def _live_extra(self):
        sim = self.sim
        if self.type == "InElastic":
            z = simlib.priv(sim, "_InElastic__zOld")
            # a group whose state was never touched is the virgin (all-zero) state, whether or not its array exists yet
            return {str(k): np.array(v) for k, v in z.items() if np.any(np.array(v))}
        if self.type == "PhaseField" and self.params["solver"] == "History" and not self.ctx.avoids("pf-history-not-restored"):
            H = simlib.priv(sim, "_PhaseField__old_psiP_e_pg")
            return {"H": {str(k): np.array(v) for k, v in H.items()} if isinstance(H, dict) else np.array(H)}
        return {}

    def _live_digest_nodisk(self):
        return self._live_digest()

    def _live_digest(self):
        sim = self.sim
        st = simlib.get_state(sim)
        with self.ctx.sut():
            md = mesh_digest(sim.mesh)
        return digest_of([st[k] for k in sorted(st)], self._live_extra(), md, sim.Niter, str(sim.algo), sim.folder)

    def _snapshot(self):
        sim = self.sim
        try:
            with self.ctx.sut():
                d = sim.Get_results(-1)
        except SutError as e:
            raise Violation("stored-iteration-unreadable", f"Get_results(-1) right after Save_Iter raised {e}", e.site)
        snap = {
            "state": simlib.get_state(sim),
            "algo": dict(self.algo),
            "mesh_i": self.mesh_i,
            "mesh_dig": mesh_digest(sim.mesh),
            "extra": self._live_extra(),
            "dict": copy.deepcopy(d),
            "results": {},
        }
        # the stored entry must hold the live fields
        sv, sa = stores_rates(self.type, self.algo["algo"])
        for key, pt, j in FIELD_KEYS[self.type]:
            if j == 1 and not sv or j == 2 and not sa:
                continue
            if key not in d:
                raise Violation("saved-entry-misses-field", f"iteration {sim.Niter - 1} has no '{key}' (algo {self.algo['algo']})")
            if not np.array_equal(d[key], snap["state"][pt][j], equal_nan=True):
                raise Violation("saved-entry-differs-from-live", f"'{key}' stored by Save_Iter differs from the live field")
            self.ctx.checked()
        for name in RESULTS_AT_SAVE[self.type]:
            try:
                with self.ctx.sut():
                    snap["results"][name] = copy.deepcopy(_result(sim, name))
            except SutError as e:
                raise Violation("result-raises-after-save", f"Result('{name}') right after Save_Iter raised {e}", e.site)
        return snap

    def _check_entry(self, i, what, sim=None):
        sim = sim or self.sim
        try:
            with self.ctx.sut():
                d = sim.Get_results(i)
        except SutError as e:
            raise Violation("stored-iteration-unreadable", f"{what}: Get_results({i}) raised {e}", e.site)
        if not deep_equal(d, self.snaps[i]["dict"]):
            raise Violation("stored-iteration-changed", f"{what}: Get_results({i}) differs from what was saved: {first_diff(d, self.snaps[i]['dict'])}")
        self.ctx.checked()
        return d

    def _check_all_entries(self, what):
        for i in range(len(self.snaps)):
            self._check_entry(i, what)

    def _check_restored(self, i, what):
        sim = self.sim
        snap = self.snaps[i]
        st = simlib.get_state(sim)
        sv, sa = stores_rates(self.type, self.algo["algo"])
        sv0, sa0 = stores_rates(self.type, snap["algo"]["algo"])
        for pt in snap["state"]:
            if not np.array_equal(st[pt][0], snap["state"][pt][0], equal_nan=True):
                raise Violation("restore-wrong-field", f"{what}: u ({pt}) after Set_Iter({i}) differs from the field saved then")
            if sv and sv0 and not np.array_equal(st[pt][1], snap["state"][pt][1], equal_nan=True):
                raise Violation("restore-wrong-field", f"{what}: v ({pt}) after Set_Iter({i}) differs from the field saved then")
            if sa and sa0 and not np.array_equal(st[pt][2], snap["state"][pt][2], equal_nan=True):
                raise Violation("restore-wrong-field", f"{what}: a ({pt}) after Set_Iter({i}) differs from the field saved then")
            # rates that the scheme active now integrates from but that iteration i does not hold (it was saved under a
            # scheme without them): whatever the convention, what Set_Iter(i) leaves there is a function of i alone,
            # not of what the simulation went through before the restore
            for j, used, held, nm in ((1, sv, sv0, "v"), (2, sa, sa0, "a")):
                if used and not held:
                    key = (i, pt, nm, st[pt][j].shape)
                    seen = self.__dict__.setdefault("_restored_rates", {})
                    if key in seen and not np.array_equal(seen[key], st[pt][j], equal_nan=True):
                        raise Violation("restore-depends-on-previous-state", f"{what}: {nm} ({pt}) after Set_Iter({i}) differs from what an earlier Set_Iter({i}) restored (max|diff| {np.max(np.abs(seen[key] - st[pt][j])):.3e}): iteration {i} holds no {nm}, and what is left there comes from the state before the restore")
                    seen.setdefault(key, np.array(st[pt][j]))
                    self.ctx.probe("restore_of_rates_the_iteration_does_not_hold")
            self.ctx.checked()
        with self.ctx.sut():
            md = mesh_digest(sim.mesh)
        if md != snap["mesh_dig"]:
            raise Violation("restore-wrong-mesh", f"{what}: mesh after Set_Iter({i}) is not the mesh that was current when it was saved")
        ex = self._live_extra()
        if not deep_equal(ex, snap["extra"]):
            raise Violation("restore-wrong-internal-variables", f"{what}: internal variables after Set_Iter({i}) differ from those saved: {first_diff(ex, snap['extra'])}")
        self.ctx.checked()

    # ------------------------------------------------------------------ generation
    def gen_op(self, rng, frng):
        q = getattr(self, "_queue", None)
        if q:
            op = q.pop(0)
            if op["op"] == "result_iter":
                others = [i for i, sn in enumerate(self.snaps) if sn["mesh_i"] != self.mesh_i]
                if not others:
                    self._queue = []
                    op = None
                else:
                    op.update(i=others[int(rng.integers(len(others)))], idx="int", name=["fx", "fy"][int(rng.integers(2))], _mut=False)
            if op is not None:
                return op
        if self.type == "Beam" and len(self.meshes) > 1 and self.snaps and rng.random() < 0.12:
            # the frame is solved on its other mesh (operators assembled there), then a result that is read from the
            # operators is asked for an iteration saved on the mesh that was left
            self._queue = [{"op": "solve"}, {"op": "result_iter"}]
            return {"op": "setmesh", "mesh": 1 - self.mesh_i}
        mesh_ids = sorted({sn["mesh_i"] for sn in self.snaps})
        can_save = not (self.type == "InElastic" and self.ctx.avoids("inelastic-save-unpicklable")) and not (self.type == "PhaseField" and not self.solved)
        if len(mesh_ids) == 1 and len(self.meshes) > 1 and self.type != "WeakForms" and self.snaps and rng.random() < 0.12:
            # histories over several meshes: go on with the other mesh and save an iteration there
            self._queue = [{"op": "solve"}, {"op": "save_iter"}]
            return {"op": "setmesh", "mesh": int((mesh_ids[0] + 1) % len(self.meshes))}
        if len(mesh_ids) > 1 and can_save and rng.random() < 0.2:
            # a history over several meshes that is saved, looked at (the simulation is left on an iteration of an earlier
            # mesh), saved again -- same or other folder -- and loaded: what the second save writes for the meshes it did
            # not keep in memory must be what the first one wrote
            last = self.snaps[-1]["mesh_i"]
            early = [i for i, sn in enumerate(self.snaps) if sn["mesh_i"] != last]
            a, b = [("A", "A"), ("A", "B"), ("B", "A")][int(rng.integers(3))]
            self._queue = [{"op": "set_iter", "i": early[int(rng.integers(len(early)))], "idx": "int"}, {"op": "save", "to": b}, {"op": "load_simu", "to": b}]
            if self.type == "PhaseField":
                self._queue[0]["resetAll"] = False
            if rng.random() < 0.5:
                self._queue.insert(0, {"op": "load_simu", "to": a})
            self.ctx.probe("scripted_save_look_back_save_again")
            return {"op": "save", "to": a}
        w = {"load": 3, "solve": 4, "save_iter": 4, "folder": 1.5, "get_results": 2, "set_iter": 2.5, "result_iter": 2,
             "setmesh": 1.0, "algo": 1.0, "save": 1.2, "load_simu": 1.0, "mesh_io": 0.5, "scribble": 1.0}
        n = len(self.snaps)
        if n == 0:
            w["get_results"] = w["set_iter"] = w["result_iter"] = 0
        if not self.saved:
            w["load_simu"] = 0
        if len(self.meshes) < 2 or self.type == "WeakForms":
            w["setmesh"] = 0
        elif self.type == "Beam":
            w["setmesh"] = 2.0
        if len(simlib.sim_algos(self.type)) < 2:
            w["algo"] = 0
        if self.type == "InElastic" and self.ctx.avoids("inelastic-save-unpicklable"):
            w["save"] = 0
        if not self.solved and self.type == "PhaseField":
            w["save_iter"] = 0  # PhaseField.Save_Iter reads the convergence info of the last Solve
            w["save"] = 0
        names = sorted(w)
        p = np.array([w[k] for k in names], dtype=float)
        name = names[int(rng.choice(len(names), p=p / p.sum()))]
        op = {"op": name}
        if name == "load":
            op["val"] = float(np.round(rng.uniform(-0.02, 0.05), 5))
        elif name == "folder":
            op["to"] = ["", "A", "B"][int(rng.integers(3))]
        elif name in ("get_results", "set_iter"):
            op["i"] = int(rng.integers(n))
            op["idx"] = ["int", "int", "numpy", "negative"][int(rng.integers(4))]
            if name == "set_iter" and self.type == "PhaseField":
                op["resetAll"] = bool(rng.integers(2))
        elif name == "result_iter":
            op["i"] = int(rng.integers(n))
            op["idx"] = ["int", "int", "numpy", "negative"][int(rng.integers(4))]
            rs = RESULTS_AT_SAVE[self.type]
            op["name"] = rs[int(rng.integers(len(rs)))]
            if self.type == "Beam" and len(self.meshes) > 1:
                # results read from the assembled operators, for an iteration saved on the other mesh of the frame
                others = [i for i, sn in enumerate(self.snaps) if sn["mesh_i"] != self.mesh_i]
                if others and rng.random() < 0.7:
                    op["i"] = others[int(rng.integers(len(others)))]
                if rng.random() < 0.6:
                    op["name"] = ["fx", "fy"][int(rng.integers(2))]
        elif name == "save_iter":
            if rng.random() < 0.35:
                op["user"] = True
        elif name == "setmesh":
            op["mesh"] = int(rng.integers(len(self.meshes)))
        elif name == "algo":
            op["spec"] = simlib.gen_algo(self.type, rng)
        elif name in ("save", "load_simu"):
            op["to"] = ["A", "B"][int(rng.integers(2))]
            if name == "load_simu":
                ks = sorted(self.saved)
                op["to"] = ks[int(rng.integers(len(ks)))]
        elif name == "scribble":
            op["aseed"] = int(rng.integers(1 << 30))
        if name in ("get_results", "result_iter", "scribble", "mesh_io"):
            op["_mut"] = False
        if self.cfg.get("faults") and name in ("save_iter", "save", "get_results", "set_iter", "load_simu", "result_iter") and frng.random() < 0.35:
            if name in ("save_iter", "save"):
                kinds = ["eio_open", "enospc_write", "eio_write", "kill", "kill_torn", "kill"]
            else:
                kinds = ["eio_open", "eio_read"]
            op["fault"] = {"seam": "disk", "kind": kinds[int(frng.integers(len(kinds)))], "k": int(frng.integers(1, 9))}
        return op

    # ------------------------------------------------------------------ apply
    def apply(self, op):
        self.disk.begin_op()
        try:
            return self._apply(op)
        except Violation as v:
            damaged = self.disk.op_reads & self.disk.tainted
            if damaged and v.invariant in self.FAILABLE + ("stored-iteration-unreadable",):
                # the operation read a file whose overwrite was interrupted by an earlier injected fault
                # (no temp-file + rename in Save): it may fail, it must not return wrong data
                self.ctx.probe("op_failed_reading_file_damaged_by_earlier_fault")
                raise Discard("an operation failed reading a file damaged by an earlier injected fault (run ends here)")
            raise

    def _apply(self, op):
        ctx = self.ctx
        name = op["op"]
        sim = self.sim
        fault = op.get("fault")
        if fault and not self.cfg.get("faults"):
            fault = None

        if name == "load":
            self._apply_load(op["val"])
            return "ok"

        if name == "solve":
            try:
                with ctx.sut():
                    if self.type == "PhaseField":
                        sim.Solve(tolConv=0.5, maxIter=8)
                    else:
                        sim.Solve()
            except SutError as e:
                if isinstance(e.exc, AssertionError) and ("did not converge" in str(e.exc) or "det(F)" in str(e.exc) or "reduce the load step" in str(e.exc)):
                    ctx.probe("solve_not_converged")
                    self._solved_since_commit = True  # trial internal variables may have moved
                    return "noconv"
                raise Violation("solve-raises", f"Solve raised {e}", e.site)
            self.solved = True
            self._solved_since_commit = True
            if self.algo["algo"] != "elliptic":
                ctx.phys_time += self.algo["dt"]
            self._check_all_entries("after Solve")
            return "ok"

        if name == "save_iter":
            if self.type == "PhaseField" and not self.solved:
                return "skip"
            self._user_dict = bool(op.get("user"))
            return self._with_disk_fault(fault, self._act_save_iter, self._ver_save_iter)

        if name == "folder":
            with ctx.sut():
                sim.folder = self.disk.path(op["to"]) if op["to"] else ""
            self.folder = op["to"]
            ctx.probe("folder_changed")
            self._check_all_entries("after folder change")
            return "ok"

        if name == "get_results":
            if op["i"] >= len(self.snaps):
                return "skip"
            self._tmp = {}
            return self._with_disk_fault(fault, lambda: self._act_get_results(op["i"]), lambda: self._ver_get_results(op["i"]))

        if name == "set_iter":
            if op["i"] >= len(self.snaps):
                return "skip"
            self._idx_kind = op.get("idx", "int")
            return self._with_disk_fault(fault, lambda: self._act_set_iter(op["i"], op.get("resetAll", False)), lambda: self._ver_set_iter(op["i"], op.get("resetAll", False)))

        if name == "result_iter":
            if op["i"] >= len(self.snaps) or op["name"] not in RESULTS_AT_SAVE[self.type]:
                return "skip"
            self._tmp = {}
            self._idx_kind = op.get("idx", "int")
            return self._with_disk_fault(fault, lambda: self._act_result_iter(op["i"], op["name"]), lambda: self._ver_result_iter(op["i"], op["name"]))

        if name == "setmesh":
            if op["mesh"] >= len(self.meshes) or self.type == "WeakForms" or (self.type == "Beam" and len(self.raws) < 2):
                return "skip"
            with ctx.sut():
                # a distinct object per assignment: the history must keep them apart
                m = self._build(op["mesh"])
                sim.mesh = m
            self.mesh_i = op["mesh"]
            self.mesh_list.append(op["mesh"])
            self.solved = False
            self._apply_load(self.load_val)
            self._check_all_entries("after mesh replacement")
            return "ok"

        if name == "algo":
            if op["spec"]["algo"] not in simlib.sim_algos(self.type):
                return "skip"
            with ctx.sut():
                simlib.apply_algo(sim, op["spec"])
            self.algo = dict(op["spec"])
            return "ok"

        if name == "save":
            if self.type == "PhaseField" and not self.solved:
                return "skip"
            if self.type == "InElastic" and self.ctx.avoids("inelastic-save-unpicklable"):
                return "skip"
            return self._with_disk_fault(fault, lambda: self._act_save(op["to"]), lambda: self._ver_save(op["to"]))

        if name == "load_simu":
            if op["to"] not in self.saved:
                return "skip"
            self._tmp = {}
            return self._with_disk_fault(fault, lambda: self._act_load(op["to"]), lambda: self._ver_load(op["to"]))

        if name == "mesh_io":
            return self._op_mesh_io()

        if name == "scribble":
            return self._op_scribble(op)

        raise ValueError(name)

    # ------------------------------------------------------------------ fault wrapper
    FAILABLE = ("stored-iteration-unreadable", "save-iter-raises", "set-iter-raises", "save-raises", "load-raises", "result-iter-raises")

    def _with_disk_fault(self, fault, act, verify):
        """act() touches the system under test with the fault armed; verify() runs with the disk healthy."""
        ctx = self.ctx
        if not fault:
            act()
            return verify()
        n_before = self.sim.Niter
        self.disk.arm(fault)
        try:
            act()
        except seams.ProcessKilled:
            self.disk.disarm()
            return self._crash_restart()
        except Violation as v:
            pending = self.disk.disarm()
            if pending or v.invariant not in self.FAILABLE:
                raise
            # an injected I/O error surfaced as a failed operation: "may fail, never wrong data"
            ctx.probe("op_failed_under_fault")
            self._after_failed_op(n_before)
            return "fault:" + v.invariant
        pending = self.disk.disarm()
        if not pending:
            ctx.probe("fault_fired_op_succeeded")
        return verify()

    def _after_failed_op(self, n_before):
        """After an operation failed because of an injected I/O error: the history is consistent and every
        previously stored iteration still restores exactly."""
        sim = self.sim
        if sim.Niter != len(self.snaps):
            raise Violation("niter-inconsistent-after-failed-save", f"Niter={sim.Niter} but {len(self.snaps)} iterations were acknowledged")
        self._check_all_entries("after a failed operation")

    def _crash_restart(self):
        """Process kill: every live object is dropped; what the disk holds is all that survives."""
        ctx = self.ctx
        ctx.probe("process_killed")
        self.disk.revive()
        from EasyFEA.Simulations import Load_Simu

        loaded = None
        for name in sorted(self.saved):
            try:
                with ctx.sut():
                    s2 = Load_Simu(self.disk.path(name))
            except SutError:
                ctx.probe("load_after_crash_failed_cleanly")
                continue
            if s2 is None:
                ctx.probe("load_after_crash_failed_cleanly")
                continue
            rec = self.saved[name]
            # either a completed Save, with every iteration it claims restoring exactly ...
            if s2.Niter > len(rec["all_snaps"]):
                raise Violation("crash-recovery-invents-iterations", f"Load_Simu after a crash reports {s2.Niter} iterations, at most {len(rec['all_snaps'])} were ever saved")
            n_ok = 0
            for i in range(s2.Niter):
                try:
                    with ctx.sut():
                        d = s2.Get_results(i)
                except SutError:
                    ctx.probe("iteration_lost_by_crash")
                    continue
                if not deep_equal(d, rec["all_snaps"][i]["dict"]):
                    raise Violation("crash-recovery-wrong-data", f"after a crash, iteration {i} loaded from {name} differs from what was saved: {first_diff(d, rec['all_snaps'][i]['dict'])}")
                n_ok += 1
                ctx.checked()
            ctx.probe("recovered_after_crash")
            loaded = (name, s2, rec)
        # restart the scenario from scratch (new process): rebuild the world's live objects
        with ctx.sut():
            if self.type == "Beam":
                self._new_frame("")
            else:
                self.meshes = [self._build(i) for i in range(len(self.raws))]
                self.mesh_i = 0
                self.model = self._make_model(self.meshes[0])
                self.sim = simlib.make_sim(self.type, self.meshes[0], self.model, folder="")
        self.folder = ""
        self.snaps = []
        self.saved = {}
        self.mesh_list = [0]
        self.algo = {"algo": "elliptic"}
        self.solved = False
        self._apply_load(0.0)
        return "crash-restart"

    # ------------------------------------------------------------------ ops
    def _act_save_iter(self):
        sim = self.sim
        self._extra_before_save = self._live_extra() if not self._solved_since_commit else None
        try:
            with self.ctx.sut():
                if getattr(self, "_user_dict", False):
                    # the caller's own record, the same dict object at every call (info["time"] = t; simu.Save_Iter(info)),
                    # rewritten by the caller afterwards: what an iteration stored must not follow it
                    info = self.__dict__.setdefault("_info", {})
                    info["time"] = float(len(self.snaps))
                    info["label"] = f"step {len(self.snaps)}"
                    sim.Save_Iter(info)
                    info["time"] = -1.0
                    info["label"] = "rewritten by the caller"
                    self.ctx.probe("save_iter_with_the_callers_dict")
                else:
                    sim.Save_Iter()
        except SutError as e:
            raise Violation("save-iter-raises", f"Save_Iter raised {e}", e.site)

    def _ver_save_iter(self):
        sim = self.sim
        if self._extra_before_save is not None and not deep_equal(self._live_extra(), self._extra_before_save):
            # nothing was solved since the state was committed / restored: saving must not move the internal variables
            raise Violation("save-iter-moves-internal-variables", f"Save_Iter without a Solve since the last Save_Iter / Set_Iter changed the committed internal variables: {first_diff(self._live_extra(), self._extra_before_save)}")
        self._solved_since_commit = False
        self.snaps.append(None)
        try:
            self.snaps[-1] = self._snapshot()
        except Exception:
            self.snaps.pop()
            raise
        if sim.Niter != len(self.snaps):
            raise Violation("niter-inconsistent", f"Niter={sim.Niter} after {len(self.snaps)} Save_Iter")
        if self.folder:
            self.ctx.probe("iter_saved_on_disk")
        else:
            self.ctx.probe("iter_saved_in_memory")
        self._check_all_entries("after Save_Iter")
        return "ok"

    def _index(self, i, kind):
        """The same iteration addressed the ways user code does: a Python int, a numpy integer (np.arange, np.argmax),
        a negative index counted from the end."""
        if kind == "numpy":
            self.ctx.probe("iteration_addressed_by_numpy_integer")
            return np.int64(i)
        if kind == "negative":
            self.ctx.probe("iteration_addressed_from_the_end")
            return int(i) - len(self.snaps)
        return int(i)

    def _act_get_results(self, i):
        self._tmp["before"] = self._live_digest_nodisk()
        self._tmp["d"] = self._check_entry(i, "get_results")

    def _ver_get_results(self, i):
        before = self._tmp["before"]
        d = self._tmp["d"]
        # dict-level scribble on what was returned must not reach the stored entry
        for k in list(d):
            d[k] = None
        d["__scribble"] = 1
        after = self._live_digest_nodisk()
        if before != after:
            raise Violation("read-alters-simulation", f"Get_results({i}) changed the live state")
        self._check_entry(i, "get_results (after the returned dict was edited)")
        return "ok"

    def _act_set_iter(self, i, resetAll):
        sim = self.sim
        snap = self.snaps[i]
        try:
            with self.ctx.sut():
                if resetAll:
                    sim.Set_Iter(self._index(i, getattr(self, "_idx_kind", "int")), resetAll=True)
                else:
                    sim.Set_Iter(self._index(i, getattr(self, "_idx_kind", "int")))
        except SutError as e:
            raise Violation("set-iter-raises", f"Set_Iter({i}) raised {e} [saved under {snap['algo']['algo']}, restored under {self.algo['algo']}, folder now '{self.folder}']", e.site)

    def _ver_set_iter(self, i, resetAll):
        snap = self.snaps[i]
        if snap["mesh_i"] != self.mesh_i:
            self.ctx.probe("set_iter_switched_mesh")
        self.mesh_i = snap["mesh_i"]
        self._solved_since_commit = bool(resetAll)
        if not resetAll:
            self._check_restored(i, "set_iter")
        self.solved = True
        self._apply_load(self.load_val)
        self._check_all_entries("after Set_Iter")
        return "ok"

    def _act_result_iter(self, i, name):
        sim = self.sim
        try:
            with self.ctx.sut():
                self._tmp["got"] = _result(sim, name, iter=self._index(i, getattr(self, "_idx_kind", "int")))
        except SutError as e:
            raise Violation("result-iter-raises", f"Result('{name}', iter={i}) raised {e}", e.site)

    def _ver_result_iter(self, i, name):
        snap = self.snaps[i]
        got = self._tmp["got"]
        self.mesh_i = snap["mesh_i"]
        sv, sa = stores_rates(self.type, self.algo["algo"])
        ref = snap["results"][name]
        if not deep_equal(np.asarray(got), np.asarray(ref)):
            g, r = np.asarray(got, dtype=float), np.asarray(ref, dtype=float)
            err = np.max(np.abs(g - r)) if g.shape == r.shape and g.size else np.inf
            scale = np.max(np.abs(r)) if r.size else 0.0
            if name in ("fx", "fy"):
                # nodal forces are K u: on an unloaded direction they are round-off of the forces of the other one
                scale = max([scale] + [float(np.max(np.abs(sn["results"][k]))) for sn in self.snaps for k in ("fx", "fy") if k in sn["results"] and np.size(sn["results"][k])])
            if not err <= 1e-12 * max(scale, 1e-300):
                raise Violation("result-for-iteration-differs", f"Result('{name}', iter={i}) differs from the value obtained when the iteration was saved (max|diff|={err:.3e}, scale {scale:.3e})")
        self.ctx.checked()
        self.solved = True
        self._apply_load(self.load_val)
        return "ok"

    def _act_save(self, to):
        sim = self.sim
        folder = self.disk.path(to)
        try:
            with self.ctx.sut():
                sim.Save(folder)
        except SutError as e:
            raise Violation("save-raises", f"Save('{to}') raised {e} [folder before: '{self.folder}', {len(self.mesh_list)} meshes, {len(self.snaps)} iterations]", e.site)

    def _ver_save(self, to):
        sim = self.sim
        self.folder = to
        self.saved[to] = {
            "n": len(self.snaps),
            "all_snaps": list(self.snaps),
            "state": simlib.get_state(sim),
            "mesh_digs": None,
            "mesh_list": list(self.mesh_list),
            "algo": dict(self.algo),
            "mesh_i": self.mesh_i,
            "extra": self._live_extra(),
        }
        self.ctx.probe("simulation_saved")
        self._check_all_entries("after Save")
        return "ok"

    def _act_load(self, to):
        from EasyFEA.Simulations import Load_Simu

        try:
            with self.ctx.sut():
                self._tmp["s2"] = Load_Simu(self.disk.path(to))
        except SutError as e:
            raise Violation("load-raises", f"Load_Simu('{to}') raised {e}", e.site)

    def _ver_load(self, to):
        rec = self.saved[to]
        s2 = self._tmp["s2"]
        if s2 is None:
            raise Violation("load-raises", f"Load_Simu('{to}') returned None for a completed Save")
        if s2.Niter != rec["n"]:
            raise Violation("loaded-history-differs", f"loaded simulation has Niter={s2.Niter}, saved one had {rec['n']}")
        old_snaps, self.snaps = self.snaps, list(rec["all_snaps"][: rec["n"]])
        old_sim, self.sim = self.sim, s2
        st = simlib.get_state(s2)
        for pt in rec["state"]:
            for j, nm in enumerate("uva"):
                if not np.array_equal(st[pt][j], rec["state"][pt][j], equal_nan=True):
                    raise Violation("loaded-state-differs", f"{nm} ({pt}) of the loaded simulation differs from the saved one")
        self.ctx.checked()
        with self.ctx.sut():
            md = mesh_digest(s2.mesh)
            ref = mesh_digest(self._build(rec["mesh_i"]))
        if md != ref:
            raise Violation("loaded-mesh-differs", "mesh (connectivity / coordinates / tags) of the loaded simulation differs from the saved one")
        if not deep_equal(self._live_extra(), rec["extra"]):
            raise Violation("loaded-internal-variables-differ", "internal variables of the loaded simulation differ from the saved ones")
        self._check_all_entries("after Load_Simu")
        self.ctx.probe("simulation_loaded")
        # carry on with the loaded object; the other saved time lines are abandoned
        self.saved = {to: rec}
        self.folder = to
        self.mesh_list = list(rec["mesh_list"])
        self.mesh_i = rec["mesh_i"]
        self.algo = dict(rec["algo"])
        self.model = s2.model
        self.solved = True
        self._apply_load(self.load_val)
        return "ok"

    def _op_mesh_io(self):
        from EasyFEA.FEM import Load_Mesh

        sim = self.sim
        folder = self.disk.path("M")
        try:
            with self.ctx.sut():
                before = mesh_digest(sim.mesh)
                path = sim.mesh.Save(folder, "m")
                m2 = Load_Mesh(path)
                after = mesh_digest(m2)
        except SutError as e:
            raise Violation("mesh-save-load-raises", f"Mesh.Save/Load_Mesh raised {e}", e.site)
        if before != after:
            raise Violation("loaded-mesh-differs", "Load_Mesh(Mesh.Save()) differs from the mesh (connectivity / coordinates / tags)")
        self.ctx.checked()
        return "ok"

    def _op_scribble(self, op):
        """Aliasing probe: overwrite in place every array a getter returned."""
        sim = self.sim
        before = self._live_digest()
        with self.ctx.sut():
            arrs = []
            for pt in sim.Get_problemTypes():
                arrs += [sim._Get_u_n(pt), sim._Get_v_n(pt), sim._Get_a_n(pt)]
            arrs += [sim.mesh.coord]
            for g in sim.mesh.dict_groupElem.values():
                arrs += [g.coord, g.connect, g.nodes]
            for a in arrs:
                if isinstance(a, np.ndarray) and a.flags.writeable and a.size:
                    a[...] = 7 if a.dtype.kind in "iu" else 1e30
        if self._live_digest() != before:
            raise Violation("getter-aliases-live-state", "writing into arrays returned by getters changed the live simulation")
        self.ctx.checked()
        self._check_all_entries("after scribble")
        return "ok"

    # ------------------------------------------------------------------ bookkeeping
    def observe(self):
        st = simlib.get_state(self.sim)
        # (file names and emptiness only: pickle sizes depend on process-global name counters of geometric objects,
        #  e.g. "Line12" vs "Line7" inside a beam structure, i.e. on what the process built before this run)
        return [[st[k] for k in sorted(st)], self.sim.Niter, self.folder, {k: bool(v) for k, v in self.disk.listing().items()}]

    def abstract_state(self):
        return (self.type, self.algo["algo"], len(self.snaps), self.folder, self.mesh_i, len(self.mesh_list), sorted(self.saved), self.solved)

    def finish(self):
        self._check_all_entries("end of run")
