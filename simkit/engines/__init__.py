"""Engines: one World subclass per family of properties."""

REGISTRY = {
    "fresh": ("simkit.engines.fresh", "FreshWorld"),
    "hist": ("simkit.engines.hist", "HistWorld"),
    "asm": ("simkit.engines.asm", "AsmWorld"),
    "bc": ("simkit.engines.bc", "BcWorld"),
    "dyn": ("simkit.engines.dyn", "DynWorld"),
    "law": ("simkit.engines.law", "LawWorld"),
    "mat": ("simkit.engines.mat", "MatWorld"),
    "pf": ("simkit.engines.pf", "PfWorld"),
    "hyper": ("simkit.engines.hyper", "HyperWorld"),
    "mpi": ("simkit.engines.mpi", "MpiWorld"),
}


def get(name: str):
    import importlib

    mod, cls = REGISTRY[name]
    return getattr(importlib.import_module(mod), cls)
