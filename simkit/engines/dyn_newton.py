"""Newton actor of engine `dyn` (C05): a HyperElastic simulation stepped with the dynamic schemes through the
incremental (Newton) path.  One step must return (u, v, a) that satisfy the scheme's documented update relations
and the discrete equation of motion  R_int(u_t) + M a_t = f_ext  on every free dof, for any previous state, any step
size, across scheme / step-size changes, rollbacks, and steps that failed part-way (injected back-end failure) and
were retried -- possibly after the user changed the step size, which is what one does when a step fails.

Reference: the update relations are evaluated by `dyn.ref_states` (docstring formulas); the internal force at the
evaluation point comes from a brand-new *static* simulation of the same model assembled at u_t (its right-hand side
is -R_int by construction of the Newton system); M is the mass matrix the simulation assembles (C02's business).
"""

import numpy as np

from ..kernel import Violation, Discard, SutError, arr_rng
from .. import meshlib, simlib, refs
from .hyper import make_law

TRIAL_ATTR = "_Simu__current_newton_raphson_solution"
ALGOS = ["newmark", "newmark", "midpoint", "hht", "hht_newmark", "euler_implicit"]


def gen_spec(rng):
    a = ALGOS[int(rng.integers(len(ALGOS)))]
    spec = {"algo": a, "dt": float(np.round(10 ** rng.uniform(-2.5, -0.8), 5))}
    if a in ("newmark", "hht"):
        spec["beta"] = float(np.round(rng.uniform(0.25, 0.5), 3))
        spec["gamma"] = float(np.round(rng.uniform(0.5, 0.9), 3))
        spec["alpha"] = float(np.round(rng.uniform(0.0, 0.4), 3)) if a == "hht" else 0.5
    elif a == "hht_newmark":
        spec["alpha"] = float(np.round(rng.uniform(0.0, 1 / 3), 3))
    return spec


class NewtonDyn:
    def __init__(self, cfg, ctx, solver_seam):
        self.cfg, self.ctx, self.solver = cfg, ctx, solver_seam
        from EasyFEA import Simulations

        c = cfg["newton"]
        self.raw = meshlib.library()[c["mesh"]]
        self.tags = simlib.boundary_tags(self.raw)
        with ctx.sut():
            self.mat = make_law(c["params"])
            self.sim = Simulations.HyperElastic(meshlib.build(self.raw), self.mat, absTol=1e-8, relTol=1e-12, incTol=1e-13, maxIter=30)
            self.sim.rho = c["rho"]
            self.pt = self.sim.problemType
            self.un = list(self.sim.Get_unknowns())
        self.spec = dict(c["spec"])
        self.load = (0.0, 0.0)  # (prescribed displacement on the far side, traction)
        with ctx.sut():
            simlib.apply_algo(self.sim, self.spec)
        self._set_bcs()
        self.iters = 0
        self.steps = 0
        self.M = None

    @staticmethod
    def gen_newton_config(rng, tier):
        law = ["NeoHookean", "MooneyRivlin", "CiarletGeymonat", "SaintVenantKirchhoff"][int(rng.integers(4))]
        p = {"law": law, "dim": 2, "thickness": float(np.round(rng.uniform(0.5, 2), 3))}
        if law == "NeoHookean":
            p["K"] = float(np.round(rng.uniform(20, 200), 2))
        elif law in ("MooneyRivlin", "CiarletGeymonat"):
            p.update(K1=float(np.round(rng.uniform(20, 100), 2)), K2=float(np.round(rng.uniform(5, 50), 2)), K=float(np.round(rng.uniform(50, 300), 2)))
        else:
            p.update(lmbda=float(np.round(rng.uniform(20, 200), 2)), mu=float(np.round(rng.uniform(20, 100), 2)))
        return {"params": p, "mesh": ["quad4_a", "tri3_a", "quad4_b", "tri6_a"][int(rng.integers(4))], "rho": float(np.round(rng.uniform(0.5, 3), 3)), "spec": gen_spec(rng)}

    # ------------------------------------------------------------------
    def _set_bcs(self):
        sim = self.sim
        d, f = self.load
        with self.ctx.sut():
            sim.Bc_Init()
            m = sim.mesh
            sim.add_dirichlet(m.Nodes_Tags(self.tags[0]), [0.0] * len(self.un), self.un)
            if d != 0.0:
                sim.add_dirichlet(m.Nodes_Tags(self.tags[2]), [d], [self.un[-1]])
            if f != 0.0:
                sim.add_neumann(m.Nodes_Tags(self.tags[1]), [float(f)], [self.un[0]])

    def gen_op(self, rng, frng):
        w = {"step": 10, "algo": 2, "load": 1.5, "kick": 1.0, "save_iter": 1.0, "set_iter": 0.7 if self.iters else 0}
        names = sorted(w)
        p = np.array([w[k] for k in names], dtype=float)
        name = names[int(rng.choice(len(names), p=p / p.sum()))]
        op = {"op": name}
        if name == "algo":
            op["spec"] = gen_spec(rng)
        elif name == "load":
            op.update(d=float(np.round(rng.uniform(-0.08, 0.08), 4)) if rng.random() < 0.5 else 0.0, f=float(np.round(rng.uniform(-3, 3), 3)) if rng.random() < 0.6 else 0.0)
        elif name == "kick":
            op.update(aseed=int(rng.integers(1 << 30)), scale=float(np.round(10 ** rng.uniform(-2.5, -0.5), 4)))
        elif name == "set_iter":
            op["i"] = int(rng.integers(self.iters))
        elif name == "step" and self.cfg.get("faults") and frng.random() < 0.3:
            op["fault"] = {"seam": "solver", "kind": ["memerr", "singular"][int(frng.integers(2))], "k": int(frng.integers(1, 5))}
            if frng.random() < 0.5:
                # what a user does when a step fails: another step size / other parameters, then again
                fr = np.random.default_rng([int(frng.integers(1 << 30)), 5])
                op["retry_spec"] = gen_spec(fr) if frng.random() < 0.4 else dict(self.spec, dt=float(np.round(self.spec["dt"] * [0.5, 0.25, 2.0][int(frng.integers(3))], 6)))
        return op

    # ------------------------------------------------------------------
    def _internal_force(self, ut):
        """-F of a brand-new static simulation of the same model assembled at ut."""
        from EasyFEA import Simulations

        with self.ctx.sut():
            tw = Simulations.HyperElastic(meshlib.build(self.raw), make_law(self.cfg["newton"]["params"]))
            if not hasattr(self.sim, TRIAL_ATTR):  # the live simulation has been through a Newton loop: it holds one
                # the private trial state was renamed by a refactoring: the internal force cannot be evaluated at a
                # chosen state any more, the run decides nothing (it never flags)
                raise Discard("the Newton trial state of a simulation is not reachable (private attribute renamed)")
            setattr(tw, TRIAL_ATTR, np.array(ut, dtype=float))
            tw.Need_Update()
            _, _, _, F = tw.Assembly(tw.problemType)
        return -F.toarray().ravel()

    def _step(self, op):
        from .dyn import ref_states, state_mags

        sim, ctx = self.sim, self.ctx
        key = simlib.pt_key(self.pt)
        u0, v0, a0 = simlib.get_state(sim)[key]
        fault = op.get("fault") if self.cfg.get("faults") else None
        if fault:
            self.solver.arm(fault)
        failed = None
        try:
            with ctx.sut():
                sim.Solve()
        except SutError as e:
            failed = e
        finally:
            pending = self.solver.disarm() if fault else False
        if fault and not pending:
            if failed is None:
                raise Violation("fault-swallowed", "an injected back-end failure did not surface from Solve()")
            st = simlib.get_state(sim)[key]
            for a, b, nm in zip(st, (u0, v0, a0), "uva"):
                if not np.array_equal(a, b):
                    raise Violation("failed-step-changed-state", f"{nm}_n changed by a Newton step that raised {failed}")
            ctx.checked()
            if "retry_spec" in op:
                self.spec = dict(op["retry_spec"])
                with ctx.sut():
                    simlib.apply_algo(sim, self.spec)
                ctx.probe("newton_step_failed_then_retried_with_other_parameters")
            else:
                ctx.probe("newton_step_failed_then_retried")
            failed = None
            try:
                with ctx.sut():
                    sim.Solve()
            except SutError as e:
                failed = e
        if failed is not None:
            if simlib.is_nonconvergence(failed.exc):
                raise Discard("a dynamic Newton step did not converge (or inverted an element)")
            raise Violation("step-raises", f"[{self.spec}] Solve raised {failed}", failed.site)
        spec = self.spec
        u1, v1, a1 = simlib.get_state(sim)[key]
        if not (np.all(np.isfinite(u1)) and np.all(np.isfinite(v1)) and np.all(np.isfinite(a1))):
            raise Violation("state-not-finite", f"[{spec}] a converged Newton step returned NaN/Inf")
        ctx.phys_time += spec["dt"]
        self.steps += 1
        ctx.probe("newton_step_" + spec["algo"])
        with ctx.sut():
            known = np.asarray(sim.Bc_dofs_Dirichlet(self.pt), dtype=int)
            vals = np.asarray(sim.Bc_values_Dirichlet(self.pt), dtype=float)
            fext = np.asarray(sim.Bc_vector_Neumann(self.pt), dtype=float).ravel()
        n = u1.size
        uk = np.unique(known)
        uD = np.array([vals[known == d].sum() for d in uk])
        free = np.setdiff1d(np.arange(n), uk)
        if uk.size and not refs.maxabs(u1[uk] - uD) <= 1e-12 * max(refs.maxabs(uD), refs.maxabs(u1), 1e-300):
            raise Violation("constraint-not-held", f"[{spec['algo']}] constrained dofs differ from their prescribed values by {refs.maxabs(u1[uk] - uD):.3e}")
        ctx.checked()
        # (i) update relations
        ut, vt, at, v1r, a1r = ref_states(spec, u1, u0, v0, a0)
        mags = state_mags(spec, u1, u0, v0, a0)
        for nm, got, ref, mag in (("v", v1, v1r, mags[1]), ("a", a1, a1r, mags[2])):
            if ref is None:
                continue
            if not refs.maxabs(got - ref) <= 1e-9 * max(mag, refs.maxabs(ref), 1e-300):
                raise Violation("update-relation-violated", f"[{spec}] {nm}_(n+1) differs from the scheme's documented update by {refs.maxabs(got - ref):.3e} (scale {max(mag, refs.maxabs(ref)):.3e})")
            ctx.checked()
        # (ii) discrete equation of motion at the evaluation point
        try:
            Rint = self._internal_force(ut)
        except SutError as e:
            ctx.probe("newton_reference_unavailable")
            return "ok:noref"
        if self.M is None:
            with ctx.sut():
                self.M = sim.Get_K_C_M_F(self.pt)[2]
        Ma = self.M @ at
        r = (Rint + Ma - fext[:n])[free]
        S = refs.maxabs((abs(self.M) @ np.abs(at))[free]) + refs.maxabs(Rint) + refs.maxabs(fext)
        if free.size:
            ctx.reached("newton_equation_defect_decade", int(np.floor(np.log10(max(refs.maxabs(r) / (1e-8 * S + 1e-9), 1e-30)))))
        if free.size and not refs.maxabs(r) <= 1e-8 * S + 1e-9:
            raise Violation("step-differs-from-documented-scheme", f"[{spec}] Newton path: R_int(u_t) + M a_t - f_ext = {refs.maxabs(r):.3e} on the free dofs (scale {S:.3e}) after a converged step")
        ctx.checked()
        return "ok"

    def apply(self, op):
        ctx, sim = self.ctx, self.sim
        name = op["op"]
        if name == "algo":
            self.spec = dict(op["spec"])
            with ctx.sut():
                simlib.apply_algo(sim, self.spec)
            return "ok"
        if name == "load":
            self.load = (op["d"], op["f"])
            self._set_bcs()
            return "ok"
        if name == "kick":
            key = simlib.pt_key(self.pt)
            u, v, a = simlib.get_state(sim)[key]
            rng = arr_rng(op["aseed"])
            with ctx.sut():
                known = np.asarray(sim.Bc_dofs_Dirichlet(self.pt), dtype=int)
            dv = rng.normal(size=v.size) * op["scale"]
            dv[known] = 0.0
            with ctx.sut():
                sim._Set_solutions(self.pt, u, v + dv, a)
            return "ok"
        if name == "save_iter":
            with ctx.sut():
                sim.Save_Iter()
            self.iters += 1
            return "ok"
        if name == "set_iter":
            if op["i"] >= self.iters:
                return "skip"
            with ctx.sut():
                sim.Set_Iter(op["i"])
            self._set_bcs()
            ctx.probe("rollback")
            return "ok"
        if name == "step":
            return self._step(op)
        raise ValueError(name)

    def observe(self):
        st = simlib.get_state(self.sim)
        return [[st[k] for k in sorted(st)], self.load, self.iters]

    def abstract_state(self):
        return ("HyperElastic", self.spec["algo"], round(np.log10(self.spec["dt"]), 1), self.load[0] != 0, self.load[1] != 0, min(self.iters, 3), min(self.steps // 4, 6))

    def finish(self):
        pass
