"""Large-system actor of engine `asm` (C03): one structured QUAD4 mesh with more than 46 341 dofs, so that
row * Ndof + col no longer fits 32 bits.  Index arithmetic that silently wraps is a property of *size*, which the
small meshes of the other actors cannot reach.  The reference is a sparse scatter-add (scipy COO -> CSR summation of
the element arrays Construct_local_matrix_system returned, rows and columns from the connectivity); a dense one is out
of reach at this size."""

import numpy as np

from ..kernel import Violation, SutError, arr_rng
from .. import meshlib, simlib, refs


def grid_raw(n):
    xs = np.linspace(0.0, 1.0, n)
    X, Y = np.meshgrid(xs, xs, indexing="xy")
    coord = np.column_stack([X.ravel(), Y.ravel(), np.zeros(n * n)])
    i, j = np.meshgrid(np.arange(n - 1), np.arange(n - 1), indexing="xy")
    n0 = (j * n + i).ravel()
    connect = np.column_stack([n0, n0 + 1, n0 + 1 + n, n0 + n])
    return meshlib.RawMesh(f"grid{n}", [("QUAD4", connect)], coord, {})


class LargeAsm:
    def __init__(self, cfg, ctx):
        self.cfg, self.ctx = cfg, ctx
        from EasyFEA import Models, Simulations

        with ctx.sut():
            self.mesh = meshlib.build(grid_raw(cfg["n"]))
            self.model = Models.Thermal(k=cfg["k"], c=cfg["c"], thickness=1.0)
            self.sim = Simulations.Thermal(self.mesh, self.model)
            self.sim.Solver_Set_Parabolic_Algorithm(0.1, 0.5)
        self.assemblies = 0
        ctx.probe("system_beyond_int32_linear_index")

    def gen_op(self, rng, frng):
        if self.assemblies >= 2:
            return None
        if self.assemblies == 1 and rng.random() < 0.5:
            return {"op": "values", "k": float(np.round(10 ** rng.uniform(-1, 1), 4))}
        return {"op": "kcmf", "_mut": True}

    def apply(self, op):
        ctx, sim = self.ctx, self.sim
        if op["op"] == "values":
            with ctx.sut():
                self.model.k = op["k"]
            return "ok"
        rec = {}
        orig = sim.Construct_local_matrix_system

        def wrapped(problemType, *a, **k):
            out = orig(problemType, *a, **k)
            rec["data"] = [(g.connect, tuple(None if x is None else np.asarray(x) for x in t)) for g, t in out.items()]
            return out

        sim.Construct_local_matrix_system = wrapped
        try:
            with ctx.sut():
                sim.Need_Update()
                got = sim.Get_K_C_M_F()
        finally:
            del sim.Construct_local_matrix_system
        self.assemblies += 1
        from scipy import sparse

        n = self.mesh.Nn
        for slot, nm in enumerate("KCM"):
            rows, cols, vals = [], [], []
            for connect, t in rec["data"]:
                if t[slot] is None:
                    continue
                nPe = connect.shape[1]
                rows.append(np.repeat(connect, nPe, axis=1).ravel())
                cols.append(np.tile(connect, (1, nPe)).ravel())
                vals.append(np.asarray(t[slot]).reshape(connect.shape[0], -1).ravel())
            if not rows:
                if got[slot].nnz:
                    raise Violation("assembly-not-scatter-add", f"{nm}: no element contribution, {got[slot].nnz} stored coefficients")
                continue
            ref = sparse.coo_matrix((np.concatenate(vals), (np.concatenate(rows).astype(np.int64), np.concatenate(cols).astype(np.int64))), shape=(n, n)).tocsr()
            diff = abs(got[slot] - ref)
            scale = max(refs.maxabs(ref.data), 1e-300)
            err = diff.max() if diff.nnz else 0.0
            if not err <= 1e-12 * scale:
                raise Violation("assembly-not-scatter-add", f"{nm} of a system with {n} dofs differs from the sparse scatter-add of the element matrices by {err:.3e} (scale {scale:.3e}, assembly {self.assemblies})")
            ctx.checked()
        return "ok"

    def observe(self):
        return [self.assemblies]

    def abstract_state(self):
        return ("large", self.assemblies)

    def finish(self):
        pass
