"""Engine `bc` (C04): constraints hold exactly and the returned solution solves the stated system.

The constraint set is the result of a *sequence of calls* (add_dirichlet / add_neumann / add_*Load /
add_connection* / generic Lagrange conditions / Bc_Init, overlapping and duplicated, in any order), the back end
is mutable state of the object, Newton solves apply incremental constraint values, back ends can fail.
Reference: dof -> value map (sum convention), dense KKT solve (null-space equivalent) of the very K, F the
simulation assembled.
"""

import numpy as np

from ..kernel import World, Violation, Discard, SutError, arr_rng
from .. import meshlib, simlib, refs, seams

EPS = np.finfo(float).eps
ITER_RTOL = 1e-5  # default rtol of scipy's cg / bicg / gmres / lgmres


def make_frame(dim: int, three: bool, params: dict):
    """Two or three beams meeting at a point (gmsh is used here, before the scheduled part of the run)."""
    from EasyFEA import Mesher, Models, ElemType
    from EasyFEA.Geoms import Domain, Point, Line

    # beams are named from a process-global counter and the mesh tags carry those names: start every frame at
    # "beam0" so that a run does not depend on how many frames the process built before (replay determinism)
    from EasyFEA.Models.Beam._beam import _Beam

    if hasattr(_Beam, "_Beam__nBeam"):
        _Beam._Beam__nBeam = -1
    mesher = Mesher()
    section = mesher.Mesh_2D(Domain(Point(-0.5 * params["b"], -0.5 * params["h"]), Point(0.5 * params["b"], 0.5 * params["h"])))
    L = params["L"]
    p1, p2 = (0, 0), (0, L)
    p3 = (L * 0.6, L * 1.1) if dim >= 2 else (0, 2 * L)
    lines = [Line(p1, p2, L / 3), Line(p2, p3, L / 3)]
    pts = [p1, p2, p3]
    if three:
        p4 = (L * 0.9, L * 0.2)
        lines.append(Line(p2, p4, L / 3))
        pts.append(p4)
    if three and params.get("four"):
        p5 = (-L * 0.7, L * 1.3)
        lines.append(Line(p2, p5, L / 3))
        pts.append(p5)
    beams = [Models.Beam.Isotropic(dim, ln, section, params["E"], params["v"]) for ln in lines]
    mesh = mesher.Mesh_Beams(beams=beams, elemType=ElemType(params["elemType"]))
    return mesh, beams, pts


class BcWorld(World):
    PROPERTY = "C04"
    ENGINE = "bc"
    ASSUMPTIONS = [
        "K and F are those the simulation assembled (their correctness is C01-C03/C09); the reference re-solves them densely",
        "a dof constrained several times holds the sum of the entered values (documented convention of the elimination solver); duplicates are generated next to Lagrange conditions too",
        "iterative back ends are called with SciPy's default rtol=1e-5: residual and forward error bounds are scaled by it and by the measured condition number; runs with kappa > 1e9 are discarded",
    ]
    ACTORS = ["Elastic", "Elastic", "Thermal", "Beam", "HyperElastic", "WeakForms"]

    @classmethod
    def gen_config(cls, rng, tier, faults):
        lib = meshlib.library()
        actor = cls.ACTORS[int(rng.integers(len(cls.ACTORS)))]
        cfg = {"actor": actor, "nops": int(rng.integers(6, 21)), "faults": bool(faults)}
        if actor == "Beam":
            cfg["dim"] = int(rng.integers(2, 4))
            cfg["three"] = bool(rng.random() < 0.45)
            cfg["timoshenko"] = bool(rng.random() < 0.3)
            cfg["params"] = {"b": float(np.round(rng.uniform(0.5, 2), 2)), "h": float(np.round(rng.uniform(0.5, 2), 2)), "L": float(np.round(rng.uniform(5, 20), 1)),
                             "E": float(np.round(10 ** rng.uniform(2, 4), 2)), "v": float(np.round(rng.uniform(0.1, 0.4), 2)),
                             "elemType": ["SEG2", "SEG3"][int(rng.integers(2))]}
            cfg["params"]["four"] = bool(cfg["three"] and rng.random() < 0.6)  # four members meeting at the joint
            return cfg
        dim = 3 if (actor in ("Elastic", "Thermal") and rng.random() < 0.2) else 2
        maxNn = 30 if actor == "HyperElastic" else (40 if tier == "quick" else 70)
        cands = [n for n in meshlib.names(dim=dim) if lib[n].Nn <= maxNn]
        if actor == "WeakForms":
            cands = [n for n in cands if lib[n].main[0][0] in ("TRI3", "QUAD4", "TRI6")]
        if actor == "HyperElastic":
            cands = [n for n in cands if lib[n].main[0][0] in ("TRI3", "QUAD4")]
        kinds = simlib.SIM_MODEL[actor]
        kind = kinds[int(rng.integers(len(kinds)))]
        cfg.update(dim=dim, mesh=cands[int(rng.integers(len(cands)))], kind=kind, params=simlib.gen_model_params(kind, rng, dim),
                   orphans=int(rng.integers(1, 4)) if rng.random() < 0.3 else 0)
        return cfg

    def __init__(self, cfg, ctx):
        super().__init__(cfg, ctx)
        import EasyFEA
        from EasyFEA.Simulations import Solvers

        self.clock = seams.ClockSeam(ctx, EasyFEA)
        self.solver = seams.SolverSeam(ctx, Solvers)
        self.actor = cfg["actor"]
        with ctx.sut():
            if self.actor == "Beam":
                from EasyFEA import Models, Simulations

                mesh, beams, pts = make_frame(cfg["dim"], cfg["three"], cfg["params"])
                self.pts = pts
                self.sim = Simulations.Beam(mesh, Models.Beam.BeamStructure(beams), useTimoshenko=cfg["timoshenko"])
                self.dim = cfg["dim"]
            else:
                raw = meshlib.library()[cfg["mesh"]]
                coord = raw.coord
                if cfg.get("orphans"):
                    extra = np.array([[10.0 + i, 10.0, 0.0 if cfg["dim"] == 2 else 1.0] for i in range(cfg["orphans"])])
                    coord = np.vstack([coord, extra])
                    ctx.probe("mesh_with_orphan_nodes")
                self._coord = coord
                mesh = meshlib.build(raw, coord=coord)
                self.model = simlib.make_weakforms(mesh, cfg["params"]) if cfg["kind"].startswith("wf_") else simlib.make_model(cfg["kind"], cfg["params"])
                self.sim = simlib.make_sim(self.actor, mesh, self.model)
                self.dim = cfg["dim"]
                self.tags = simlib.boundary_tags(raw)
            self.pt = self.sim.problemType
            self.un = list(self.sim.Get_unknowns())
            self.Lc = float(np.ptp(self.sim.mesh.coord[self.sim.mesh.nodes], axis=0).max())  # characteristic length
            self.Nn = self.sim.mesh.Nn
            self.used_nodes = np.array(self.sim.mesh.nodes)
        self.backend = "scipy"
        self.n_lagrange = 0
        self.dir_dofs = []  # ordered multiset of constrained dofs (reference model of the Dirichlet list)
        self.dir_vals = []
        self.solved = 0

    def close(self):
        self.solver.close()
        self.clock.close()

    # ------------------------------------------------------------------ generation
    def _anchored(self):
        """Enough Dirichlet dofs to remove rigid/constant modes (heuristic used only to enable `solve`; linear solves
        of a system that is singular anyway are discarded by the measured condition number)."""
        nd = len(self.un)
        if self.actor == "HyperElastic":
            # no dense reference decides singularity for the Newton path: every component held on >= 2 nodes
            comps = {}
            for d in set(self.dir_dofs):
                comps.setdefault(d % nd, set()).add(d // nd)
            return all(len(comps.get(c, ())) >= 2 for c in range(nd))
        if self.actor == "Beam":
            # the members of a frame are separate bodies until a connection joins them: a solve is worth generating once
            # one node is clamped and the members are connected, or once the joint itself (all its coincident nodes) is
            # clamped (anything else is a mechanism whose solve the measured condition number would discard)
            byn = {}
            for d in set(self.dir_dofs):
                byn.setdefault(d // nd, set()).add(d % nd)
            clamped = {n for n, v in byn.items() if len(v) == nd}
            if getattr(self, "conn", None) and clamped:
                return True
            joint = getattr(self, "_joint", None)
            if joint is None:
                with self.ctx.sut():
                    joint = self._joint = {int(n) for n in np.asarray(self.sim.mesh.Nodes_Point(self.pts[1]), dtype=int)}
            return bool(joint) and joint <= clamped
        return len(set(self.dir_dofs)) >= 3 * nd

    def gen_op(self, rng, frng):
        w = {"dirichlet": 4, "load": 2.5, "bc_init": 0.4, "backend": 1.5, "lagrange": 0.8, "connection": 0, "solve": 4 if self._anchored() else 0}
        if self.actor == "Beam":
            w["connection"] = 3 if self.n_lagrange == 0 else 0.3
            w["lagrange"] = 0.3
        if self.actor == "HyperElastic":
            w["backend"] = 0.3
            w["lagrange"] = 0
        if not self._anchored():
            w["dirichlet"] = 8
        names = sorted(w)
        p = np.array([w[k] for k in names], dtype=float)
        name = names[int(rng.choice(len(names), p=p / p.sum()))]
        op = {"op": name}
        if name == "dirichlet":
            op["sel"] = self._gen_sel(rng, anchor=not self._anchored())
            full = (not self._anchored()) and rng.random() < 0.8
            k = len(self.un) if full else int(rng.integers(1, len(self.un) + 1))
            op["unknowns"] = [self.un[i] for i in (range(len(self.un)) if full else rng.permutation(len(self.un))[:k])]
            form = ["const", "array", "func"][int(rng.choice(3, p=[0.5, 0.25, 0.25]))]
            sc = 0.02 if self.actor == "HyperElastic" else 1.0
            zero = rng.random() < 0.4
            op["vals"] = {"form": form, "aseed": int(rng.integers(1 << 30)), "scale": 0.0 if zero else sc}
            if form == "array":
                op["vals"].update(shared=bool(rng.random() < 0.3), reuse=bool(rng.random() < 0.3))
            op["dup_ok"] = bool(rng.random() < 0.5)
        elif name == "load":
            op["kind"] = ["neumann", "lineLoad", "surfLoad", "volumeLoad"][int(rng.integers(4))] if self.actor != "Beam" else "neumann"
            # distributed loads on the entities of the mesh (node sets that bound no loaded element contribute nothing:
            # see finding distributed-load-on-part-without-loaded-element, found and fixed through engine mpi)
            if op["kind"] == "neumann":
                op["sel"] = self._gen_sel(rng)
            elif op["kind"] == "volumeLoad":
                op["sel"] = {"tag": "S0" if self.dim == 2 else "V0"}
            else:
                if self.dim == 3:
                    op["kind"] = "surfLoad"
                op["sel"] = {"tag": self.tags[int(rng.integers(len(self.tags)))]}
            k = int(rng.integers(1, len(self.un) + 1))
            op["unknowns"] = [self.un[i] for i in rng.permutation(len(self.un))[:k]]
            sc = 0.05 if self.actor == "HyperElastic" else 1.0
            if self.actor != "HyperElastic" and rng.random() < 0.25:
                # load levels decades apart on one object (unloading, cyclic loads): a linear solve knows no units
                sc = float(f"{10 ** rng.uniform(-6, 6):.3e}")
            op["vals"] = {"form": ["const", "func"][int(rng.integers(2))], "aseed": int(rng.integers(1 << 30)), "scale": sc}
            if op["kind"] == "neumann" and rng.random() < 0.4:
                # nodal forces given node by node
                op["vals"].update(form="array", shared=bool(rng.random() < 0.4), reuse=bool(rng.random() < 0.4))
        elif name == "backend":
            op["to"] = ["scipy", "cg", "bicg", "gmres", "lgmres"][int(rng.integers(5))]
        elif name == "lagrange":
            op["aseed"] = int(rng.integers(1 << 30))
        elif name == "connection":
            op["kind"] = ["fixed", "hinged"][int(rng.integers(2))]
            op["pseed"] = int(rng.integers(1 << 30))
        elif name == "solve":
            op["_mut"] = True
            if self.cfg.get("faults") and frng.random() < 0.3:
                op["fault"] = {"seam": "solver", "kind": ["memerr", "singular"][int(frng.integers(2))], "k": int(frng.integers(1, 4))}
                if self.actor == "HyperElastic" and frng.random() < 0.6:
                    op["fault"]["from_end"] = int(frng.integers(0, 2))
        return op

    def _gen_sel(self, rng, anchor=False):
        if self.actor == "Beam":
            return {"point": int(rng.integers(len(self.pts)))} if rng.random() < 0.7 else {"nodes_seed": int(rng.integers(1 << 30)), "n": int(rng.integers(1, 4))}
        r = rng.random()
        if anchor or r < 0.5:
            return {"tag": self.tags[int(rng.integers(len(self.tags)))]}
        if r < 0.6:
            return {"tag": "S0" if self.dim == 2 else "V0"}
        return {"nodes_seed": int(rng.integers(1 << 30)), "n": int(rng.integers(1, 6))}

    def _nodes(self, sel):
        mesh = self.sim.mesh
        if "tag" in sel:
            return np.asarray(mesh.Nodes_Tags(sel["tag"]), dtype=int)
        if "point" in sel:
            if sel["point"] >= len(self.pts):
                return np.array([], dtype=int)
            return np.asarray(mesh.Nodes_Point(self.pts[sel["point"]]), dtype=int)
        rng = arr_rng(sel["nodes_seed"])
        n = min(sel["n"], self.used_nodes.size)
        return np.sort(rng.choice(self.used_nodes, size=n, replace=False))

    def _values(self, spec, nodes, k):
        """(values passed to EasyFEA, reference nodal values (n, k))"""
        rng = arr_rng(spec["aseed"], 5)
        X = self.sim.mesh.coord[nodes]
        out, ref = [], np.zeros((nodes.size, k))
        for j in range(k):
            if spec["form"] == "const":
                c = float(np.round(rng.uniform(-1, 1) * spec["scale"], 6))
                out.append(c)
                ref[:, j] = c
            elif spec["form"] == "array":
                a = np.round(rng.uniform(-1, 1, nodes.size) * spec["scale"], 6)
                # a caller keeps its arrays: the same object is passed for several unknowns ([q, q]) or entered again later
                # (load stepping, Bc_Init + re-add); the reference holds the values the caller wrote into it
                pool = self.__dict__.setdefault("_arr_pool", {})
                if spec.get("reuse") and nodes.size in pool:
                    a, orig = pool[nodes.size]
                    self.ctx.probe("caller_array_entered_again")
                elif spec.get("shared") and j > 0:
                    a, orig = out[0], ref[:, 0].copy()
                    self.ctx.probe("one_array_for_several_unknowns")
                else:
                    orig = a.copy()
                    pool[nodes.size] = (a, orig)
                out.append(a)
                ref[:, j] = orig
            else:
                c0, c1, c2 = (float(np.round(x * spec["scale"], 6)) for x in rng.uniform(-1, 1, 3))
                out.append(lambda x, y, z, c0=c0, c1=c1, c2=c2: c0 + c1 * x + c2 * y)
                ref[:, j] = c0 + c1 * X[:, 0] + c2 * X[:, 1]
        return out, ref

    # ------------------------------------------------------------------ apply
    def apply(self, op):
        ctx, sim = self.ctx, self.sim
        name = op["op"]

        if name == "bc_init":
            with ctx.sut():
                sim.Bc_Init()
            self.dir_dofs, self.dir_vals, self.n_lagrange = [], [], 0
            self.conn = []
            return "ok"

        if name == "backend":
            with ctx.sut():
                sim.solver = op["to"]
            self.backend = op["to"]
            return "ok"

        if name == "dirichlet":
            if not set(op["unknowns"]) <= set(self.un):
                return "skip"
            with ctx.sut():
                nodes = self._nodes(op["sel"])
            if nodes.size == 0:
                return "skip"
            un = op["unknowns"]
            idx = [self.un.index(u) for u in un]
            dofs = (nodes[:, None] * len(self.un) + np.array(idx)[None, :]).ravel()
            if not op.get("dup_ok") and set(dofs.tolist()) & set(self.dir_dofs):
                return "skip"  # (half of the conditions may overlap earlier ones: the dof then holds the sum of the entries)
            vals, ref = self._values(op["vals"], nodes, len(un))
            with ctx.sut():
                sim.add_dirichlet(nodes, vals, un)
            if set(dofs.tolist()) & set(self.dir_dofs):
                ctx.probe("duplicated_dirichlet_dof")
            self.dir_dofs += dofs.tolist()
            self.dir_vals += ref.ravel().tolist()
            # the simulation's own list must agree with the reference map (dof lookup from (nodes, unknown names))
            with ctx.sut():
                d = np.asarray(sim.Bc_dofs_Dirichlet(self.pt))
                v = np.asarray(sim.Bc_values_Dirichlet(self.pt))
            if not (np.array_equal(d, np.array(self.dir_dofs)) and np.allclose(v, np.array(self.dir_vals), rtol=1e-12, atol=1e-14)):
                raise Violation("dirichlet-list-differs", f"dofs/values recorded by add_dirichlet({op['vals']['form']}, {un}) differ from node*dof_n+component / the entered values")
            ctx.checked()
            return "ok"

        if name == "load":
            if not set(op["unknowns"]) <= set(self.un):
                return "skip"
            with ctx.sut():
                nodes = self._nodes(op["sel"])
            if nodes.size == 0:
                return "skip"
            vals, ref = self._values(op["vals"], nodes, len(op["unknowns"]))
            fn = {"neumann": "add_neumann", "lineLoad": "add_lineLoad", "surfLoad": "add_surfLoad", "volumeLoad": "add_volumeLoad"}[op["kind"]]
            try:
                with ctx.sut():
                    before = np.array(sim.Bc_vector_Neumann(self.pt), dtype=float) if op["kind"] == "neumann" else None
                    getattr(sim, fn)(nodes, vals, op["unknowns"])
                    after = np.array(sim.Bc_vector_Neumann(self.pt), dtype=float) if op["kind"] == "neumann" else None
            except SutError as e:
                raise Violation("load-raises", f"{fn} on {op['sel']} raised {e}", e.site)
            if op["kind"] == "neumann":
                # "the applied loads": a nodal load spreads the entered value evenly over the selected nodes (documented:
                # force / number of nodes), node by node for arrays and functions -- what this call adds to the load vector
                # is compared with the values the caller entered (held by the reference, not read back from the caller's array)
                exp = np.zeros_like(before)
                idx = [self.un.index(u) for u in op["unknowns"]]
                for j, c in enumerate(idx):
                    np.add.at(exp, nodes * len(self.un) + c, ref[:, j] / nodes.size)
                sc = max(refs.maxabs(exp), 1e-300)
                if before.shape != after.shape or not refs.maxabs((after - before) - exp) <= 1e-12 * sc + 1e-15 * refs.maxabs(before):
                    raise Violation("applied-load-differs-from-entered-values", f"add_neumann({op['vals']['form']}{', one array for all unknowns' if op['vals'].get('shared') else ''}{', array entered before' if op['vals'].get('reuse') else ''}) added a load vector that differs from value / number of nodes by {refs.maxabs((after - before) - exp):.3e} (scale {sc:.3e})")
                ctx.checked()
            return "ok"

        if name == "lagrange":
            if self.actor == "HyperElastic":
                return "skip"
            # multi-point constraint c1*u_i + c2*u_j = value between two dofs not otherwise constrained
            rng = arr_rng(op["aseed"])
            free_nodes = [n for n in self.used_nodes if not any((n * len(self.un) + c) in set(self.dir_dofs) for c in range(len(self.un)))]
            if len(free_nodes) < 2:
                return "skip"
            n2 = rng.choice(free_nodes, size=2, replace=False)
            u = self.un[int(rng.integers(len(self.un)))]
            coefs = np.round(rng.uniform(0.5, 2, 2) * rng.choice([-1, 1], 2), 3)
            val = float(np.round(rng.uniform(-0.5, 0.5), 4)) if rng.random() < 0.5 else 0.0
            with ctx.sut():
                from EasyFEA.FEM import LagrangeCondition

                dofs = sim.Bc_dofs_nodes(n2, [u], self.pt)
                sim._Bc_Add_Lagrange(LagrangeCondition(self.pt, n2, dofs, [u], np.array([val]), coefs, "mpc"))
            self.n_lagrange += 1
            ctx.probe("lagrange_condition")
            return "ok"

        if name == "connection":
            if self.actor != "Beam":
                return "skip"
            with ctx.sut():
                nodes = np.asarray(sim.mesh.Nodes_Point(self.pts[1]), dtype=int)
            if nodes.size < 2:
                return "skip"
            nd = len(self.un)
            if any((n * nd + c) in set(self.dir_dofs) for n in nodes for c in range(nd)):
                return "skip"
            before = len(sim.Bc_Lagrange)
            # pairwise, as the examples do for a joint -- the pairs of a spanning tree of the coincident nodes, entered
            # in a seeded order (a chain, a star, or two pairs first and the pair that bridges them last)
            prng = arr_rng(op.get("pseed", 0), nodes.size)
            order = prng.permutation(nodes.size)
            pairs = [(int(nodes[order[k]]), int(nodes[order[int(prng.integers(k))]])) for k in range(1, nodes.size)]
            pairs = [pairs[i] for i in prng.permutation(len(pairs))]
            with ctx.sut():
                for a, b in pairs:
                    if op["kind"] == "fixed":
                        sim.add_connection_fixed(np.array([a, b]))
                    else:
                        sim.add_connection_hinged(np.array([a, b]))
            self.conn = getattr(self, "conn", []) + [(a, b, op["kind"]) for a, b in pairs]
            self.n_lagrange += len(sim.Bc_Lagrange) - before
            ctx.probe("beam_connection_" + op["kind"])
            return "ok"

        if name == "solve":
            if not self._anchored():
                return "skip"
            return self._solve(op)

        raise ValueError(name)

    # ------------------------------------------------------------------ the oracle
    def _reference(self):
        """Dense reference solution of the stated system: K u = F under Dirichlet (sum convention) and multi-point constraints."""
        sim = self.sim
        with self.ctx.sut():
            K, _, _, F = sim.Get_K_C_M_F(self.pt)
            Fn = sim.Bc_vector_Neumann(self.pt)
            lag = [(np.asarray(bc.dofs), np.asarray(bc.lagrangeCoefs, dtype=float), float(bc.dofsValues[0])) for bc in sim.Bc_Lagrange]
        n = self.Nn * len(self.un)
        Kd = refs.dense(K)[:n, :n]
        Fd = refs.dense(F).ravel()[:n] + Fn
        # orphan nodes: no equation, no load -> their dofs are left at zero by a unit diagonal
        orphan = np.array(sim.mesh.orphanNodes, dtype=int)
        od = (orphan[:, None] * len(self.un) + np.arange(len(self.un))[None, :]).ravel() if orphan.size else np.array([], dtype=int)
        Kd = Kd.copy()
        Kd[od, od] += 1.0
        known = np.unique(np.array(self.dir_dofs, dtype=int))
        dd, dv = np.array(self.dir_dofs, dtype=int), np.array(self.dir_vals, dtype=float)
        uD = np.array([dv[dd == d].sum() for d in known])
        free = np.setdiff1d(np.arange(n), known)
        u = np.zeros(n)
        u[known] = uD
        rhs = Fd[free] - Kd[np.ix_(free, known)] @ uD
        Kff = Kd[np.ix_(free, free)]
        pos = {d: i for i, d in enumerate(free)}
        if lag:
            Cm = np.zeros((len(lag), free.size))
            dvec = np.zeros(len(lag))
            for r, (dofs, coefs, val) in enumerate(lag):
                dvec[r] = val
                for d, c in zip(dofs, coefs):
                    if d in pos:
                        Cm[r, pos[d]] += c
                    else:
                        dvec[r] -= c * u[d]
            sc = max(refs.maxabs(Kff), 1e-300)
            KKT = np.block([[Kff, sc * Cm.T], [sc * Cm, np.zeros((len(lag), len(lag)))]])
            cond = np.linalg.cond(KKT)
            if not np.isfinite(cond) or cond > 1e9:
                return None, cond, None
            sol = np.linalg.solve(KKT, np.concatenate([rhs, sc * dvec]))
            u[free] = sol[: free.size]
        else:
            Cm, dvec = np.zeros((0, free.size)), np.zeros(0)
            cond = np.linalg.cond(Kff) if free.size else 1.0
            if not np.isfinite(cond) or cond > 1e9:
                return None, cond, None
            if free.size:
                u[free] = np.linalg.solve(Kff, rhs)
        return u, cond, {"K": Kd, "F": Fd, "known": known, "uD": uD, "free": free, "C": Cm, "d": dvec, "lag": lag, "rhs": rhs}

    def _merged_problem_converges(self) -> bool:
        """Same nonlinear problem on a brand-new simulation, every constrained dof entered once with the sum of its entries."""
        sim = self.sim
        try:
            with self.ctx.sut():
                raw = meshlib.library()[self.cfg["mesh"]]
                s2 = simlib.make_sim(self.actor, meshlib.build(raw, coord=self._coord), simlib.make_model(self.cfg["kind"], self.cfg["params"]))
                dd, dv = np.array(self.dir_dofs, dtype=int), np.array(self.dir_vals, dtype=float)
                known = np.unique(dd)
                uD = np.array([dv[dd == d].sum() for d in known])
                s2._Bc_Add_Dirichlet(self.pt, known // len(self.un), uD, known, list(self.un))
                for bc in sim.Bc_Neuman:
                    s2._Bc_Add_Neumann(bc.problemType, bc.nodes, bc.dofsValues, bc.dofs, bc.unknowns)
                simlib.set_state(s2, simlib.get_state(sim))
                s2.Solve()
            return True
        except SutError:
            return False

    def _twin(self):
        """Brand-new simulation with the same (merged) conditions, started at the current state of the live one."""
        sim = self.sim
        raw = meshlib.library()[self.cfg["mesh"]]
        s2 = simlib.make_sim(self.actor, meshlib.build(raw, coord=self._coord), simlib.make_model(self.cfg["kind"], self.cfg["params"]))
        dd, dv = np.array(self.dir_dofs, dtype=int), np.array(self.dir_vals, dtype=float)
        known = np.unique(dd)
        vals = np.array([dv[dd == d].sum() for d in known])
        s2._Bc_Add_Dirichlet(self.pt, known // len(self.un), vals, known, list(self.un))
        for bc in sim.Bc_Neuman:
            s2._Bc_Add_Neumann(bc.problemType, bc.nodes, bc.dofsValues, bc.dofs, bc.unknowns)
        simlib.set_state(s2, simlib.get_state(sim))
        return s2

    def _newton_equations_check(self, u, uD):
        """'The free dofs satisfy the assembled equations with the applied loads to solver accuracy', Newton actors:
        a brand-new simulation with the same conditions is started *at* the returned solution.  Its first residual
        must be at the level of the Newton tolerances and solving from there must not move the solution.  (A solve
        that 'converged' on a stale residual -- e.g. the tangent and residual of an abandoned iterate -- fails both.)
        Both conditions are required before anything is flagged, so an iterate accepted by any of the three
        documented criteria passes."""
        ctx, sim = self.ctx, self.sim
        try:
            with ctx.sut():
                s2 = self._twin()
                u2, nit, _, norms = s2._Solver_Solve_Newton_Raphson()
        except SutError:
            ctx.probe("newton_equations_check_reference_failed")
            return
        absTol = 1.0e-6  # documented default of Solver_Set_Newton_Raphson_Algorithm (the engine never changes it)
        moved = refs.maxabs(np.asarray(u2) - u)
        scale = max(refs.maxabs(u), refs.maxabs(uD) if np.size(uD) else 0.0)
        if norms[0] > 10 * absTol and moved > 1e-3 * scale + 1e-9 * self.Lc:
            raise Violation("equations-not-satisfied", f"Newton: the returned solution leaves a residual of {norms[0]:.3e} (absTol {absTol:g}) on a brand-new simulation with the same conditions, and solving from it moves the solution by {moved:.3e} (max|u| {scale:.3e})")
        ctx.checked()

    def _solve(self, op):
        ctx, sim = self.ctx, self.sim
        nonlinear = self.actor == "HyperElastic"
        if not nonlinear:
            uref, cond, info = self._reference()
            if uref is None:
                ctx.discards["ill-conditioned or singular constraint set"] += 1
                return "ill-conditioned"
        before = simlib.get_state(sim)
        fault = op.get("fault") if self.cfg.get("faults") else None
        if fault and nonlinear and "from_end" in fault:
            # place the failure relative to the *end* of the Newton loop (its last iterations are where a retry can be
            # fooled by leftovers): the length of the loop is measured on a twin that is thrown away
            try:
                with ctx.sut():
                    tw = self._twin()
                    c0 = self.solver.calls
                    tw.Solve()
                fault = dict(fault, k=max(1, self.solver.calls - c0 - int(fault["from_end"])))
                ctx.probe("fault_placed_from_end_of_newton_loop")
            except SutError:
                fault = None
        if fault:
            self.solver.arm(fault)
        failed = None
        try:
            with ctx.sut():
                sim.Solve()
        except SutError as e:
            failed = e
        finally:
            pending = self.solver.disarm() if fault else False
        if fault and not pending:
            if failed is None:
                raise Violation("fault-swallowed", "an injected back-end failure did not surface from Solve()")
            after = simlib.get_state(sim)
            for pt in before:
                if not np.array_equal(after[pt][0], before[pt][0]):
                    raise Violation("failed-solve-changed-state", f"the solution changed although Solve raised {failed}")
            ctx.probe("solve_failed_then_retried")
            failed = None
            try:
                with ctx.sut():
                    sim.Solve()
            except SutError as e:
                failed = e
        if failed is not None:
            if nonlinear and simlib.is_nonconvergence(failed.exc):
                if len(self.dir_dofs) != len(set(self.dir_dofs)) and self._merged_problem_converges():
                    raise Violation("newton-duplicated-dirichlet-diverges", f"Newton solve with a dof constrained several times fails although the same problem with each dof entered once (sum of the entries) converges: {failed}", failed.site)
                ctx.discards["newton did not converge"] += 1
                return "noconv"
            raise Violation("solve-raises", f"Solve raised {failed} [backend {self.backend}, {self.n_lagrange} Lagrange conditions, {len(self.dir_dofs)} Dirichlet entries]", failed.site)
        self.solved += 1
        with ctx.sut():
            u = sim._Get_u_n(self.pt)
        ctx.probe("solved_" + ("lagrange" if self.n_lagrange else "elimination") + ("_newton" if nonlinear else "") + "_" + (self.backend if not self.n_lagrange else "direct"))
        if not np.all(np.isfinite(u)):
            raise Violation("solution-not-finite", f"Solve returned NaN/Inf [backend {self.backend}, orphans {len(sim.mesh.orphanNodes)}]")

        dd, dv = np.array(self.dir_dofs, dtype=int), np.array(self.dir_vals, dtype=float)
        known = np.unique(dd)
        uD = np.array([dv[dd == d].sum() for d in known])
        # a displacement of 1e-12 x the size of the domain is noise in any unit system (all-zero problems)
        uscale = max(refs.maxabs(u), refs.maxabs(uD), 1e-300)
        ufloor = 1e-12 * self.Lc if self.actor != "Thermal" else 1e-12 * max(refs.maxabs(uD), 1.0)
        if nonlinear or not self.n_lagrange:
            if known.size and not refs.maxabs(u[known] - uD) <= 1e-12 * uscale:
                i = int(np.argmax(np.abs(u[known] - uD)))
                dup = int(np.sum(dd == known[i]))
                raise Violation("constraint-not-held", f"dof {known[i]} (entered {dup}x) holds {u[known][i]:.6g}, prescribed (sum of entries) {uD[i]:.6g} [{'newton' if nonlinear else 'elimination'}]")
            ctx.checked()
        if nonlinear:
            self._newton_equations_check(u, uD)
            return "ok"

        direct = bool(self.n_lagrange) or self.backend == "scipy"
        tol_f = (1e3 * EPS * cond + 1e-10) if direct else 10 * cond * ITER_RTOL
        if self.n_lagrange:
            # constraints through multipliers: satisfied to solver accuracy
            if known.size and not refs.maxabs(u[known] - uD) <= tol_f * uscale + ufloor:
                raise Violation("constraint-not-held", f"Lagrange path: Dirichlet dofs off by {refs.maxabs(u[known] - uD):.3e} (scale {uscale:.3e}, cond {cond:.2e})")
            # the connections that were REQUESTED (not merely the conditions the simulation kept): joined nodes share
            # their translations, and their rotations too when the connection is fixed
            nd = len(self.un)
            for a, b, kind in getattr(self, "conn", []):
                comps = range(nd) if kind == "fixed" else [c for c, nm in enumerate(self.un) if nm in ("x", "y", "z")]
                gap = max(abs(u[a * nd + c] - u[b * nd + c]) for c in comps)
                if not gap <= tol_f * uscale + ufloor:
                    raise Violation("multipoint-constraint-violated", f"{kind} connection requested between nodes {a} and {b}: they move apart by {gap:.3e} (scale {uscale:.3e}, cond {cond:.2e}; the simulation holds {len(info['lag'])} Lagrange conditions)")
            for dofs, coefs, val in info["lag"]:
                g = float(coefs @ u[dofs] - val)
                if not abs(g) <= tol_f * max(uscale * refs.maxabs(coefs), abs(val), 1e-300) + ufloor * refs.maxabs(coefs):
                    raise Violation("multipoint-constraint-violated", f"connection on dofs {dofs.tolist()}: c.u - value = {g:.3e} (scale {uscale:.3e}, cond {cond:.2e})")
            ctx.checked()
        # equality with the dense reference
        if not refs.maxabs(u - uref) <= tol_f * max(refs.maxabs(uref), uscale) + ufloor:
            raise Violation("solution-differs-from-reference", f"max|u - u_ref| = {refs.maxabs(u - uref):.3e}, scale {uscale:.3e}, cond {cond:.2e}, backend {self.backend if not self.n_lagrange else 'direct (Lagrange)'}, duplicates {len(dd) - known.size}")
        ctx.checked()
        # the free dofs satisfy the assembled equations (residual orthogonal to the constraint null space)
        free = info["free"]
        r = (info["K"] @ u - info["F"])[free]
        rs = refs.maxabs(np.abs(info["K"][free]) @ np.abs(u)) + refs.maxabs(info["F"])
        if info["C"].shape[0]:
            # project out the span of C^T
            Q, _ = np.linalg.qr(info["C"].T)
            r = r - Q @ (Q.T @ r)
        tol_r = (1e3 * EPS * cond + 1e-10) if direct else 10 * ITER_RTOL * max(1.0, cond * 1e-3)
        if free.size and not refs.maxabs(r) <= tol_r * max(rs, 1e-300) + refs.maxabs(info["K"]) * ufloor:
            raise Violation("equations-not-satisfied", f"residual on free dofs {refs.maxabs(r):.3e}, scale {rs:.3e}, cond {cond:.2e}, backend {self.backend}")
        ctx.checked()
        return "ok"

    def observe(self):
        st = simlib.get_state(self.sim)
        return [[st[k][0] for k in sorted(st)], self.backend, self.n_lagrange, len(self.dir_dofs)]

    def abstract_state(self):
        return (self.actor, self.backend, min(self.n_lagrange, 3), min(len(self.dir_dofs) - len(set(self.dir_dofs)), 3), min(self.solved, 3), len(self.sim.mesh.orphanNodes) > 0)
