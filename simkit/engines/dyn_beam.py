"""Beam actor of engine `dyn` (C05): a frame of 2-3 beams (Euler-Bernoulli / Timoshenko, 2D / 3D, SEG2 / SEG3) stepped
with the hyperbolic schemes.  What is particular to beams: the mass matrix carries rotational inertia, the members are
joined by connections (Lagrange conditions), so a step is a *constrained* step: the new displacement satisfies the
Dirichlet conditions and the connections, and the discrete equation of motion K u_t + M a_t = F holds on the null space
of the constraints (what "on every free degree of freedom" means once dofs are tied to each other).

Reference: `dyn.ref_states` (documented definitions) + a dense null-space solve written here.
"""

import numpy as np

from ..kernel import Violation, Discard, SutError, arr_rng
from .. import simlib, refs
from .dyn import ref_states, update_defects, EPS

ALGOS = ["newmark", "newmark", "midpoint", "hht", "hht_newmark", "euler_implicit"]


def gen_spec(rng):
    a = ALGOS[int(rng.integers(len(ALGOS)))]
    spec = {"algo": a, "dt": float(np.round(10 ** rng.uniform(-3, 0), 5))}
    if a in ("newmark", "hht"):
        spec["beta"] = float(np.round(rng.uniform(0.2, 0.5), 3))
        spec["gamma"] = float(np.round(rng.uniform(0.5, 0.9), 3))
        spec["alpha"] = float(np.round(rng.uniform(0.0, 0.5), 3)) if a == "hht" else 0.5
    elif a == "hht_newmark":
        spec["alpha"] = float(np.round(rng.uniform(0.0, 1 / 3), 3))
    return spec


def constrained_step(spec, K, M, F, B, g, u0, v0, a0):
    """One step of the documented scheme under B u1 = g, dense.  Returns (u1, v1, a1, cond, info)."""
    n = u0.size
    z = np.zeros(n)

    def resid(u1):
        ut, vt, at, _, _ = ref_states(spec, u1, u0, v0, a0)
        return K @ ut + M @ at - F

    A = np.zeros((n, n))
    wK, _, wM, _, _ = ref_states(spec, 1.0, 0.0, 0.0, 0.0)
    A = wK * K + wM * M  # the states are affine in u1 with scalar weights (checked by the `weights` operation of `dyn`)
    if B.shape[0]:
        U, s, Vt = np.linalg.svd(B, full_matrices=True)
        rank = int(np.sum(s > 1e-10 * max(s.max(), 1e-300)))
        Z = Vt[rank:].T
        up = np.linalg.pinv(B) @ g
        if refs.maxabs(B @ up - g) > 1e-9 * max(refs.maxabs(g), 1e-300) + 1e-13:
            return None, None, None, np.inf, {"why": "inconsistent constraints"}
    else:
        Z = np.eye(n)
        up = z.copy()
    Az = Z.T @ A @ Z
    cond = np.linalg.cond(Az) if Az.size else 1.0
    if not np.isfinite(cond) or cond > 1e14:
        return None, None, None, np.inf, {"why": "singular"}
    y = np.linalg.solve(Az, -Z.T @ resid(up)) if Az.size else np.zeros(0)
    u1 = up + Z @ y
    _, _, _, v1, a1 = ref_states(spec, u1, u0, v0, a0)
    dt = spec["dt"]
    W = abs(wK) * np.abs(K) + abs(wM) * np.abs(M)
    hist = np.abs(u0) + dt * np.abs(v0) + dt**2 * np.abs(a0) + np.abs(up)
    S = W @ (hist + np.abs(u1)) + np.abs(F)
    return u1, v1, a1, cond, {"Z": Z, "Az": Az, "S": S}


class BeamDyn:
    def __init__(self, cfg, ctx, solver_seam):
        from .fresh_beam import make_frame_sim

        self.cfg, self.ctx, self.solver = cfg, ctx, solver_seam
        c = cfg["beamdyn"]
        self.c = c
        self.bspec = {k: (dict(v) if isinstance(v, dict) else v) for k, v in c["beam"].items()}
        self.bspec["params"] = {k: (list(v) if isinstance(v, list) else v) for k, v in c["beam"]["params"].items()}
        with ctx.sut():
            self.sim, self.beams, self.pts = make_frame_sim(self.bspec)
            self.sim.rho = c["rho"]
            self.pt = self.sim.problemType
            self.un = list(self.sim.Get_unknowns())
            self.n = self.sim.mesh.Nn * len(self.un)
        self.spec = dict(c["spec"])
        self.load = (0.0, 0.0)
        self.free_mode = False
        self.energy = None
        self.iters = 0
        self.steps = 0
        with ctx.sut():
            simlib.apply_algo(self.sim, self.spec)
        self._set_bcs()

    @staticmethod
    def gen_beamdyn_config(rng, tier):
        from .fresh_beam import BeamFresh

        return {"beam": BeamFresh.gen_beam_config(rng), "rho": float(np.round(10 ** rng.uniform(-1, 1), 3)), "spec": gen_spec(rng),
                "clamped": bool(rng.random() < 0.75), "connection": ["fixed", "fixed", "hinged", None][int(rng.integers(4))]}

    # ------------------------------------------------------------------
    def _set_bcs(self):
        sim, c = self.sim, self.c
        d, f = self.load
        with self.ctx.sut():
            sim.Bc_Init()
            m = sim.mesh
            if c["clamped"]:
                sim.add_dirichlet(m.Nodes_Point(self.pts[0]), [0.0] * len(self.un), self.un)
            if c["connection"]:
                nodes = np.asarray(m.Nodes_Point(self.pts[1]), dtype=int)
                for a, b in zip(nodes[:-1], nodes[1:]):
                    (sim.add_connection_fixed if c["connection"] == "fixed" else sim.add_connection_hinged)(np.array([a, b]))
            if d != 0.0:
                sim.add_dirichlet(m.Nodes_Point(self.pts[2]), [float(d)], [self.un[1]])
            if f != 0.0:
                sim.add_neumann(m.Nodes_Point(self.pts[-1]), [float(f)], [self.un[0]])

    def _dense(self):
        sim, n = self.sim, self.n
        with self.ctx.sut():
            K, C, M, F = sim.Get_K_C_M_F(self.pt)
            Fn = sim.Bc_vector_Neumann(self.pt)
            known = np.asarray(sim.Bc_dofs_Dirichlet(self.pt), dtype=int)
            vals = np.asarray(sim.Bc_values_Dirichlet(self.pt), dtype=float)
            lag = [(np.asarray(bc.dofs, dtype=int), np.asarray(bc.lagrangeCoefs, dtype=float), float(np.asarray(bc.dofsValues).ravel()[0])) for bc in sim.Bc_Lagrange]
        Kd, Md = refs.dense(K)[:n, :n], refs.dense(M)[:n, :n]
        Cd = refs.dense(C)[:n, :n]
        Fd = refs.dense(F).ravel()[:n] + Fn
        uk = np.unique(known)
        rows, g = [], []
        for d in uk:
            e = np.zeros(n)
            e[d] = 1.0
            rows.append(e)
            g.append(vals[known == d].sum())
        for dofs, coefs, val in lag:
            e = np.zeros(n)
            np.add.at(e, dofs, coefs)
            rows.append(e)
            g.append(val)
        B = np.array(rows) if rows else np.zeros((0, n))
        return Kd, Cd, Md, Fd, B, np.array(g, dtype=float)

    # ------------------------------------------------------------------
    def gen_op(self, rng, frng):
        w = {"algo": 2.0, "set_state": 1.5, "load": 2, "step": 10, "save_iter": 1, "set_iter": 1 if self.iters else 0, "free": 1.5, "param": 1.5}
        names = sorted(w)
        p = np.array([w[k] for k in names], dtype=float)
        name = names[int(rng.choice(len(names), p=p / p.sum()))]
        op = {"op": name}
        if name == "algo":
            op["spec"] = gen_spec(rng)
            if rng.random() < 0.5:
                op["spec"]["dt"] = float(np.round(10 ** rng.uniform(-3.5, 0.5), 6))
        elif name == "set_state":
            op.update(aseed=int(rng.integers(1 << 30)), scale=float(np.round(10 ** rng.uniform(-3, 0), 4)))
        elif name == "load":
            op.update(d=float(np.round(rng.uniform(-0.1, 0.1), 4)) if rng.random() < 0.5 else 0.0, f=float(np.round(rng.uniform(-5, 5), 3)) if rng.random() < 0.6 else 0.0)
        elif name == "set_iter":
            op["i"] = int(rng.integers(self.iters))
        elif name == "free":
            op.update(aseed=int(rng.integers(1 << 30)), algo=["newmark", "midpoint", "euler_implicit"][int(rng.integers(3))], dt=float(np.round(10 ** rng.uniform(-3, 0.7), 5)))
        elif name == "param":
            k = int(rng.integers(len(self.beams)))
            if rng.random() < 0.5:
                op.update(name="E", k=k, val=float(np.round(10 ** rng.uniform(2, 4), 2)))
            else:
                op.update(name="rho", k=0, val=float(np.round(10 ** rng.uniform(-1, 1), 3)))
        if name == "step" and self.cfg.get("faults") and frng.random() < 0.25:
            op["fault"] = {"seam": "solver", "kind": ["memerr", "singular"][int(frng.integers(2))], "k": 1}
        return op

    def apply(self, op):
        ctx, sim = self.ctx, self.sim
        name = op["op"]
        if name == "algo":
            with ctx.sut():
                simlib.apply_algo(sim, op["spec"])
            self.spec = dict(op["spec"])
            self.energy = None
            return "ok"
        if name == "set_state":
            rng = arr_rng(op["aseed"])
            u, v, a = (rng.normal(size=self.n) * op["scale"] for _ in range(3))
            with ctx.sut():
                sim._Set_solutions(self.pt, u, v, a)
            self.energy = None
            self.free_mode = False
            ctx.probe("arbitrary_prior_state")
            return "ok"
        if name == "load":
            self.load = (op["d"], op["f"])
            self._set_bcs()
            self.free_mode = False
            self.energy = None
            return "ok"
        if name == "param":
            with ctx.sut():
                if op["name"] == "E":
                    self.beams[op["k"]].E = op["val"]
                else:
                    sim.rho = op["val"]
            self.energy = None
            ctx.probe("beam_parameter_changed_between_steps")
            return "ok"
        if name == "save_iter":
            with ctx.sut():
                sim.Save_Iter()
            self.iters += 1
            return "ok"
        if name == "set_iter":
            if op["i"] >= self.iters:
                return "skip"
            with ctx.sut():
                sim.Set_Iter(op["i"])
            self.energy = None
            self.free_mode = False
            ctx.probe("rollback")
            return "ok"
        if name == "free":
            spec = {"algo": op["algo"], "dt": op["dt"]}
            if op["algo"] == "newmark":
                spec.update(beta=0.25, gamma=0.5)
            with ctx.sut():
                simlib.apply_algo(sim, spec)
            self.spec = spec
            self.load = (0.0, 0.0)
            self._set_bcs()
            # a state compatible with the homogeneous constraints (clamp and connections): projected on their null space
            _, _, _, _, B, _ = self._dense()
            rng = arr_rng(op["aseed"])
            u, v = rng.normal(size=self.n) * 0.01, rng.normal(size=self.n) * 0.01
            if B.shape[0]:
                P = np.eye(self.n) - np.linalg.pinv(B) @ B
                u, v = P @ u, P @ v
            with ctx.sut():
                sim._Set_solutions(self.pt, u, v, np.zeros(self.n))
            self.free_mode = True
            self.energy = None
            return "ok"
        if name == "step":
            return self._step(op)
        raise ValueError(name)

    # ------------------------------------------------------------------
    def _step(self, op):
        sim, ctx, spec = self.sim, self.ctx, self.spec
        K, C, M, F, B, g = self._dense()
        key = simlib.pt_key(self.pt)
        u0, v0, a0 = simlib.get_state(sim)[key]
        if u0.size != self.n:
            u0 = np.zeros(self.n)
        v0 = v0 if v0.size == self.n else np.zeros(self.n)
        a0 = a0 if a0.size == self.n else np.zeros(self.n)
        if refs.maxabs(C) != 0:
            raise Violation("step-differs-from-documented-scheme", "a Beam simulation assembled a damping matrix although it has no damping parameter")
        fault = op.get("fault") if self.cfg.get("faults") else None
        if fault:
            self.solver.arm(fault)
        failed = None
        try:
            with ctx.sut():
                sim.Solve()
        except SutError as e:
            failed = e
        finally:
            pending = self.solver.disarm() if fault else False
        if fault and not pending:
            if failed is None:
                raise Violation("fault-swallowed", "an injected back-end failure did not surface from Solve()")
            st = simlib.get_state(sim)[key]
            for a, b, nm in zip(st, (u0, v0, a0), "uva"):
                if a.size == b.size and not np.array_equal(a, b):
                    raise Violation("failed-step-changed-state", f"{nm}_n changed by a step that raised {failed}")
            ctx.checked()
            ctx.probe("step_failed_then_retried")
            try:
                with ctx.sut():
                    sim.Solve()
                failed = None
            except SutError as e:
                raise Violation("retry-after-fault-raises", f"step retried after an injected failure raised {e}", e.site)
        if failed is not None:
            raise Violation("step-raises", f"[Beam, {spec}] Solve raised {failed}", failed.site)
        u1, v1, a1 = simlib.get_state(sim)[key]
        ctx.phys_time += spec["dt"]
        self.steps += 1
        ctx.probe("beam_step_" + spec["algo"])
        if len(sim.Bc_Lagrange):
            ctx.probe("beam_step_with_connections")
        if not (np.all(np.isfinite(u1)) and np.all(np.isfinite(v1)) and np.all(np.isfinite(a1))):
            raise Discard("non-finite state after a step")

        ur, vr, ar, cond, info = constrained_step(spec, K, M, F, B, g, u0, v0, a0)
        if ur is None or cond > 1e10:
            ctx.discards["ill-conditioned step"] += 1
            return "ill-conditioned"
        # constraints: prescribed values (sum convention) and connections
        if B.shape[0]:
            cs = max(refs.maxabs(np.abs(B) @ np.abs(u1)), refs.maxabs(g), 1e-300)
            if not refs.maxabs(B @ u1 - g) <= 1e-9 * cs:
                raise Violation("constraint-not-held", f"[Beam, {spec['algo']}] prescribed values / connections violated by {refs.maxabs(B @ u1 - g):.3e} after a step (scale {cs:.3e})")
            ctx.checked()
        # documented update relations
        for nm, d, s in update_defects(spec, u1, v1, a1, u0, v0, a0):
            if not refs.maxabs(d) <= 1e-10 * max(s, 1e-300):
                raise Violation("update-rule-violated", f"[Beam, {spec}] {nm}: defect {refs.maxabs(d):.3e}, scale {s:.3e}")
            ctx.checked()
        # the step is the documented scheme's constrained step
        Z, Az = info["Z"], info["Az"]
        Smax = max(refs.maxabs(info["S"]), 1e-300)
        bwd = 1e-10 * Smax
        if Az.size:
            fwd = bwd * float(np.max(np.sum(np.abs(np.linalg.inv(Az)), axis=1))) * np.sqrt(self.n)
            if not refs.maxabs(u1 - ur) <= fwd + 1e-9 * refs.maxabs(g):
                raise Violation("step-differs-from-documented-scheme", f"[Beam, {spec}, connection {self.c['connection']}] max|u1 - reference| = {refs.maxabs(u1 - ur):.3e} > bound {fwd:.3e} (|terms| {Smax:.3e}, cond {cond:.2e})")
            ctx.checked()
        # discrete equation of motion on the null space of the constraints
        ut, vt, at, _, _ = ref_states(spec, u1, u0, v0, a0)
        r = K @ ut + M @ at - F
        if Z.size and not refs.maxabs(Z.T @ r) <= 10 * bwd * np.sqrt(self.n):
            raise Violation("equation-of-motion-violated", f"[Beam, {spec}] residual on the unconstrained motions {refs.maxabs(Z.T @ r):.3e} > {10 * bwd * np.sqrt(self.n):.3e} (|terms| {Smax:.3e}, cond {cond:.2e})")
        ctx.checked()
        # energy in free undamped motion
        if self.free_mode and refs.maxabs(F) == 0 and refs.maxabs(g) == 0:
            E0 = 0.5 * v0 @ (M @ v0) + 0.5 * u0 @ (K @ u0)
            E1 = 0.5 * v1 @ (M @ v1) + 0.5 * u1 @ (K @ u1)
            dt = spec["dt"]
            tol = 1e-8 * max(abs(E0), 1e-300) * (1 + cond * EPS * 1e3)
            if spec["algo"] == "euler_implicit":
                if E1 > E0 + tol:
                    raise Violation("backward-euler-increases-energy", f"Beam, dt={dt}: E {E0:.12e} -> {E1:.12e}")
                ctx.checked()
                ctx.probe("beam_energy_checked_euler_implicit")
            elif spec["algo"] == "midpoint":
                if abs(E1 - E0) > tol:
                    raise Violation("energy-not-conserved", f"Beam, midpoint dt={dt}: E {E0:.12e} -> {E1:.12e}")
                ctx.checked()
                ctx.probe("beam_energy_checked_midpoint")
            elif spec["algo"] == "newmark" and spec.get("beta") == 0.25 and spec.get("gamma") == 0.5:
                if self.energy is None:
                    self.energy = (E1, 0)
                else:
                    Eref, k = self.energy
                    if abs(E1 - Eref) > 1e-8 * max(abs(Eref), 1e-300) * (1 + cond * EPS * 1e3):
                        raise Violation("energy-not-conserved", f"Beam, newmark(1/4,1/2) dt={dt}: E drifted from {Eref:.12e} to {E1:.12e} after {k + 1} steps")
                    self.energy = (Eref, k + 1)
                    ctx.checked()
                    ctx.probe("beam_energy_checked_newmark")
        return "ok"

    def observe(self):
        st = simlib.get_state(self.sim)
        return [st[k] for k in sorted(st)]

    def abstract_state(self):
        return ("Beam", self.spec["algo"], self.free_mode, self.iters > 0, self.load[0] != 0, self.load[1] != 0, self.c["connection"], self.bspec["timoshenko"], self.bspec["dim"])
