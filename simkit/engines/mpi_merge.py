"""Merge clause of C20 ("merging meshes with a node mapping is the inverse bookkeeping, for all lists of meshes to merge
with coincident or disjoint nodes"), driven as a short history of merges: lists of 2-4 meshes placed side by side (their
common edge / face nodes coincide when the two discretisations agree), on top of each other (every node coincident),
apart (disjoint), of different dimensions (a plate and a strut sticking out of it, a block and a fin), and -- what makes it
a history -- the result of one merge fed into the next one.

Oracle (dense numpy on the raw arrays of the inputs, nothing of Merge is reused): through mapping[i] every node an element
of input i uses lands on a merged node with the same coordinates; every element of every group of input i is an element
of the merged group of that type (as a set of mapped nodes); the merged groups hold nothing else; the number of distinct
positions of used nodes is preserved; a nested merge equals the flat one up to numbering (same positions, same elements
as sets of positions).
"""

import numpy as np

from ..kernel import Violation, SutError, arr_rng
from .. import meshlib


def _strut(p0, p1, n, name="strut"):
    """A SEG2 mesh of n elements from p0 to p1 (raw arrays only)."""
    t = np.linspace(0, 1, n + 1)[:, None]
    coord = np.asarray(p0, dtype=float)[None, :] * (1 - t) + np.asarray(p1, dtype=float)[None, :] * t
    seg = np.c_[np.arange(n), np.arange(1, n + 1)]
    return meshlib.RawMesh(name, [("SEG2", seg)], coord, {"SEG2": {"L0": np.arange(n + 1)}})


def _used(mesh):
    return np.unique(np.concatenate([np.asarray(g.connect).ravel() for g in mesh.dict_groupElem.values() if g.Ne]))


def _keyed(coord):
    return [tuple(r) for r in np.round(np.asarray(coord), 8).tolist()]


def _elements_as_positions(mesh):
    """{elemType: set of frozensets of node positions}"""
    out = {}
    X = np.round(np.asarray(mesh.coord), 8)
    for et, g in mesh.dict_groupElem.items():
        if g.Ne:
            out[str(getattr(et, "value", et))] = {frozenset(map(tuple, X[row].tolist())) for row in np.asarray(g.connect)}
    return out


def gen_scenario(seed):
    rng = arr_rng(seed, 23)
    lib = meshlib.library()
    three = rng.random() < 0.35
    if three:
        names = [n for n in ("hexa8_a", "tetra4_a", "prism6_a") if n in lib]
    else:
        names = [n for n in meshlib.names(dim=2) if lib[n].Nn <= 30 and lib[n].main[0][0] in ("TRI3", "QUAD4", "TRI6", "QUAD8")]
    k = int(rng.integers(2, 5))
    if rng.random() < 0.35:
        # a body, something of another dimension sticking out of it, a second body: merged in two goes
        a, b = names[int(rng.integers(len(names)))], names[int(rng.integers(len(names)))]
        items = [{"name": a, "kind": "first"}, {"name": a, "kind": "strut"}, {"name": b, "kind": ["beside", "apart"][int(rng.integers(2))]}]
        if rng.random() < 0.3:
            items.append({"name": a, "kind": "beside"})
        return {"three": bool(three), "items": items, "nested": True, "split": 1}
    items = []
    x = 0.0
    for j in range(k):
        kind = ["beside", "beside", "apart", "ontop", "strut"][int(rng.integers(5))] if j else "first"
        name = names[int(rng.integers(len(names)))]
        if kind == "ontop":
            name = items[-1]["name"] if items[-1]["name"] != "strut" else name
        items.append({"name": name, "kind": kind})
    return {"three": bool(three), "items": items, "nested": bool(rng.random() < 0.6), "split": int(rng.integers(1, k)) if k > 1 else 1}


def build_inputs(sc):
    """Brand-new Mesh objects placed according to the scenario."""
    lib = meshlib.library()
    out = []
    x = 0.0
    prev_w = 0.0
    for it in sc["items"]:
        if it["kind"] == "strut":
            # a strut (2D) / a line fin (3D) sticking out of the previous body: one end on its right side, the other beyond
            y = 0.5
            p0 = [x, y, 0.0] if not sc["three"] else [x, y, 0.25]
            p1 = [x + 1.0, y, 0.0] if not sc["three"] else [x + 1.0, y, 0.25]
            raw = _strut(p0, p1, 3)
            out.append(meshlib.build(raw))
            x += 1.0
            prev_w = 0.0
            continue
        raw = lib[it["name"]]
        X = np.array(raw.coord, dtype=float)
        w = float(X[:, 0].max() - X[:, 0].min())
        if it["kind"] == "ontop":
            x0 = x - prev_w
        elif it["kind"] == "apart":
            x0 = x + 0.37
        else:
            x0 = x
        X[:, 0] += x0 - X[:, 0].min()
        out.append(meshlib.build(raw, coord=X))
        x = x0 + w
        prev_w = w
    return out


def check(ctx, seed):
    from EasyFEA import Mesh

    sc = gen_scenario(seed)
    try:
        with ctx.sut():
            inputs = build_inputs(sc)
    except SutError as e:
        raise Violation("merge-raises", f"building the inputs of a merge raised {e}", e.site)
    desc = "[" + ", ".join(f"{it['kind']}:{it['name']}" for it in sc["items"]) + "]"

    def merge(lst):
        with ctx.sut():
            return Mesh.Merge(lst, return_mapping=True)

    def verify(lst, merged, mapping, what):
        mx = np.asarray(merged.coord)
        m_used = _used(merged)
        mel = _elements_as_positions(merged)
        expect = {}
        positions = set()
        for i, (mesh, mp) in enumerate(zip(lst, mapping)):
            mp = np.asarray(mp)
            used = _used(mesh)
            if mp.shape[0] < used.max() + 1:
                raise Violation("merge-mapping", f"{what} {desc}: mapping[{i}] has {mp.shape[0]} entries, input {i} uses node {used.max()}")
            tgt = mp[used]
            if np.any(tgt < 0) or np.any(tgt >= merged.Nn):
                raise Violation("merge-mapping", f"{what} {desc}: mapping[{i}] sends used nodes of input {i} outside the merged mesh")
            if not np.allclose(mx[tgt], np.asarray(mesh.coord)[used], atol=1e-9):
                raise Violation("merge-mapping", f"{what} {desc}: mapping[{i}] does not send the nodes of input {i} to nodes with their coordinates")
            if not set(tgt.tolist()) <= set(m_used.tolist()):
                raise Violation("merge-mapping", f"{what} {desc}: nodes that elements of input {i} use are used by no element of the merged mesh")
            for et, g in mesh.dict_groupElem.items():
                if not g.Ne:
                    continue
                key = str(getattr(et, "value", et))
                if key not in mel:
                    raise Violation("merge-lost-elements", f"{what} {desc}: the merged mesh has no {key} group although input {i} has one")
                mg = merged.dict_groupElem[et]
                rows = {frozenset(r) for r in np.asarray(mg.connect).tolist()}
                miss = [r for r in mp[np.asarray(g.connect)].tolist() if frozenset(r) not in rows]
                if miss:
                    raise Violation("merge-lost-elements", f"{what} {desc}: {len(miss)} of the {g.Ne} {key} elements of input {i} are not in the merged mesh once renumbered through mapping[{i}]")
            for key, s in _elements_as_positions(mesh).items():
                expect.setdefault(key, set()).update(s)
            positions.update(_keyed(np.asarray(mesh.coord)[used]))
        for key, s in mel.items():
            if key not in expect or not s <= expect[key]:
                raise Violation("merge-invented-elements", f"{what} {desc}: the merged {key} group holds elements that no input holds")
            if len(s) != len(expect[key]):
                raise Violation("merge-lost-elements", f"{what} {desc}: the merged {key} group has {len(s)} distinct elements, the inputs {len(expect[key])}")
        got = set(_keyed(mx[m_used]))
        if got != positions:
            raise Violation("merge-node-positions", f"{what} {desc}: the inputs use {len(positions)} distinct node positions, the merged mesh {len(got)} ({len(positions - got)} lost, {len(got - positions)} invented)")
        ctx.checked(3)

    try:
        flat, fmap = merge(inputs)
        verify(inputs, flat, fmap, "flat merge")
        ctx.probe("merge_list_checked")
        if any(it["kind"] == "strut" for it in sc["items"]):
            ctx.probe("merge_of_different_dimensions")
        if any(it["kind"] == "ontop" for it in sc["items"]):
            ctx.probe("merge_of_coincident_meshes")
        if sc["nested"] and len(inputs) > 2:
            # the history: merge a first sub-list, then its result with the rest
            a, b = inputs[: sc["split"] + 1], inputs[sc["split"] + 1:]
            if len(a) >= 2 and b:
                first, m1 = merge(a)
                verify(a, first, m1, "first merge")
                second, m2 = merge([first] + b)
                verify([first] + b, second, m2, "merge of a merged mesh")
                # same result as the flat merge up to numbering
                if _elements_as_positions(second) != _elements_as_positions(flat):
                    raise Violation("nested-merge-differs-from-flat-merge", f"{desc}: merging {len(a)} meshes and then the rest gives other elements than merging all at once")
                ctx.checked()
                ctx.probe("merged_mesh_merged_again")
    except SutError as e:
        raise Violation("merge-raises", f"Mesh.Merge {desc} raised {e}", e.site)
