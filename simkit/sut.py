"""Process pinning and import of the system under test (EasyFEA from VERIF_REPO)."""

import os
import sys

PINNED = {
    "OMP_NUM_THREADS": "1",
    "OPENBLAS_NUM_THREADS": "1",
    "MKL_NUM_THREADS": "1",
    "NUMEXPR_NUM_THREADS": "1",
    "VECLIB_MAXIMUM_THREADS": "1",
    "MPLBACKEND": "Agg",
    "JAX_PLATFORMS": "cpu",
    "PYTHONDONTWRITEBYTECODE": "1",
}

REPO = os.environ.get("VERIF_REPO", "/repo")
VERIF = os.path.dirname(os.path.dirname(os.path.abspath(__file__)))


def ensure_env() -> None:
    """Re-exec the interpreter once with a pinned environment (hash seed, single-threaded BLAS).

    One forgotten source of nondeterminism breaks replay, so this is done before numpy is imported.
    """
    want = dict(PINNED)
    want["PYTHONHASHSEED"] = os.environ.get("VERIF_HASHSEED", "0")
    if all(os.environ.get(k) == v for k, v in want.items()):
        return
    if os.environ.get("SIMKIT_REEXEC") == "1":
        raise RuntimeError("environment pinning failed after re-exec")
    env = dict(os.environ)
    env.update(want)
    env["SIMKIT_REEXEC"] = "1"
    sys.stdout.flush()
    sys.stderr.flush()
    os.execve(sys.executable, [sys.executable] + sys.orig_argv[1:], env)


_loaded = None


def load():
    """Imports EasyFEA from VERIF_REPO and returns the package. Idempotent."""
    global _loaded
    if _loaded is not None:
        return _loaded
    repo = os.path.abspath(REPO)
    if sys.path[0] != repo:
        sys.path.insert(0, repo)
    if os.environ.get("SIMKIT_FAKE_MPI") == "1":
        # engine `mpi`: the in-process MPI world must exist before EasyFEA reads the launcher variables
        from . import fakempi

        fakempi.install()
    # EasyFEA prints (Newton iterations, "Saved simulation", ...): keep stdout for the harness.
    import io
    import contextlib

    with contextlib.redirect_stdout(io.StringIO()):
        import EasyFEA  # noqa: F401
        from EasyFEA import Simulations, Models  # noqa: F401
    got = os.path.abspath(os.path.dirname(os.path.dirname(EasyFEA.__file__)))
    if got != repo:
        raise RuntimeError(f"EasyFEA imported from {got}, expected {repo}")
    _loaded = EasyFEA
    return EasyFEA


def repo_head() -> str:
    import subprocess

    try:
        out = subprocess.run(
            ["git", "-C", REPO, "rev-parse", "--short", "HEAD"],
            capture_output=True,
            text=True,
            timeout=20,
        )
        head = out.stdout.strip()
        dirty = subprocess.run(
            ["git", "-C", REPO, "status", "--porcelain", "--untracked-files=no"],
            capture_output=True,
            text=True,
            timeout=20,
        ).stdout.strip()
        return head + ("+dirty" if dirty else "")
    except Exception:
        return "unknown"
