"""simkit -- deterministic simulation with fault injection for EasyFEA.

See /verif/DESIGN.md.  Nothing here imports EasyFEA at module import time:
`simkit.sut.load()` does it, after the process environment has been pinned.
"""
