"""Self-tests of the simulator itself.

  python -m simkit.selftest determinism <engine> [--seeds N] [--tier quick] [--faults]
      every seed is run twice in this process (pool of workers), once more in a fresh interpreter with
      another PYTHONHASHSEED and another worker count; event-log digests must be identical.
  python -m simkit.selftest digests <engine> <tier> <faults 0/1> <workers> <seed> [<seed> ...]
      prints "seed digest status" lines (used by the above).
"""

import os
import subprocess
import sys
import warnings


def _digest_task(args):
    engine, seed, tier, faults = args
    from simkit import kernel
    from simkit.engines import get

    tr = kernel.execute(get(engine), seed, tier, faults=faults)
    return seed, tr.digest, tr.status


def digests(engine, tier, faults, workers, seeds):
    from simkit import sut, kernel

    if engine == "mpi":
        os.environ["SIMKIT_FAKE_MPI"] = "1"

    sut.load()
    from simkit import meshlib
    from simkit.engines import get
    import multiprocessing as mp
    from concurrent.futures import ProcessPoolExecutor

    meshlib.library()
    wc = get(engine)
    if hasattr(wc, "prepare"):
        wc.prepare(tier)

    def init():
        warnings.simplefilter("ignore")
        kernel.quiet_stdio()

    with ProcessPoolExecutor(max_workers=workers, mp_context=mp.get_context("fork"), initializer=init) as ex:
        return list(ex.map(_digest_task, [(engine, s, tier, faults) for s in seeds], chunksize=4))


def main(argv=None) -> int:
    from simkit import sut

    sut.ensure_env()
    argv = sys.argv[1:] if argv is None else argv
    cmd = argv[0]
    if cmd == "digests":
        engine, tier, faults, workers = argv[1], argv[2], argv[3] == "1", int(argv[4])
        seeds = [int(s) for s in argv[5:]]
        for seed, dig, status in digests(engine, tier, faults, workers, seeds):
            print(seed, dig, status)
        return 0
    if cmd == "determinism":
        import argparse

        ap = argparse.ArgumentParser()
        ap.add_argument("engine")
        ap.add_argument("--seeds", type=int, default=200)
        ap.add_argument("--tier", default="quick")
        ap.add_argument("--faults", action="store_true")
        ap.add_argument("--base", type=int, default=7_000_000)
        a = ap.parse_args(argv[1:])
        seeds = [a.base + i for i in range(a.seeds)]
        r1 = digests(a.engine, a.tier, a.faults, 16, seeds)
        r2 = digests(a.engine, a.tier, a.faults, 4, seeds)
        bad = [(x, y) for x, y in zip(r1, r2) if x != y]
        env = dict(os.environ, VERIF_HASHSEED="12345", SIMKIT_REEXEC="0")
        env.pop("PYTHONHASHSEED", None)
        out = subprocess.run(
            [sys.executable, "-m", "simkit.selftest", "digests", a.engine, a.tier, "1" if a.faults else "0", "1"] + [str(s) for s in seeds[: max(20, a.seeds // 4)]],
            capture_output=True, text=True, env=env, cwd=sut.VERIF, timeout=3600,
        )
        r3 = []
        for line in out.stdout.splitlines():
            p = line.split()
            if len(p) == 3 and p[0].isdigit():
                r3.append((int(p[0]), p[1], p[2]))
        if not r3:
            print("fresh-interpreter run produced nothing:", out.stderr[-2000:])
            return 2
        bad3 = [(x, y) for x, y in zip(r1, r3) if x != y]
        from collections import Counter

        print(f"determinism {a.engine} faults={a.faults}: {len(seeds)} seeds x (16 workers, 4 workers), {len(r3)} seeds in a fresh interpreter with PYTHONHASHSEED=12345 and 1 worker")
        print("  status mix:", dict(Counter(s for _, _, s in r1)))
        print(f"  in-process mismatches: {len(bad)}; fresh-interpreter mismatches: {len(bad3)}")
        for x, y in (bad + bad3)[:10]:
            print("  MISMATCH", x, y)
        return 1 if (bad or bad3) else 0
    print(__doc__)
    return 2


if __name__ == "__main__":
    sys.exit(main())
