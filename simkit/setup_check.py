"""setup_cmd: nothing is built or installed; verify that the tool chain the checks need is importable."""
import sys


def main() -> int:
    from simkit import sut

    sut.ensure_env()
    import numpy
    import scipy
    import gmsh  # noqa: F401

    sut.load()
    from simkit import meshlib

    lib = meshlib.library()
    print(f"setup ok: python {sys.version.split()[0]}, numpy {numpy.__version__}, scipy {scipy.__version__}, EasyFEA from {sut.REPO}, {len(lib)} library meshes")
    return 0


if __name__ == "__main__":
    sys.exit(main())
