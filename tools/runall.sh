#!/bin/sh
# Runs the quick (default) or thorough tier of every registered check (or of those named after the tier); prints the summary lines.
TIER=${1:-quick}
cd "$(dirname "$0")/.."
rc=0
shift 2>/dev/null
LIST="$*"
[ -z "$LIST" ] && LIST=$(/venv/bin/python -c "from simkit.plans import PLANS; print(' '.join(sorted(PLANS)))")
for p in $LIST; do
  timeout 3000 /venv/bin/python -m simkit.check $p --tier $TIER > /tmp/runall_$p.log 2>&1
  r=$?
  [ $r -ne 0 ] && rc=1
  echo "exit=$r $(grep -E '^\[' /tmp/runall_$p.log | tail -1)"
  grep -E "^VIOLATION|^KNOWN-FINDING|^NOTE|HARNESS-ERROR" /tmp/runall_$p.log | cut -c1-220
done
exit $rc
