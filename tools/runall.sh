#!/bin/sh
# Runs the quick (default) or thorough tier of every registered check; prints the summary lines.
TIER=${1:-quick}
cd "$(dirname "$0")/.."
rc=0
for p in $(/venv/bin/python -c "from simkit.plans import PLANS; print(' '.join(sorted(PLANS)))"); do
  timeout 3000 /venv/bin/python -m simkit.check $p --tier $TIER > /tmp/runall_$p.log 2>&1
  r=$?
  [ $r -ne 0 ] && rc=1
  echo "exit=$r $(grep -E '^\[' /tmp/runall_$p.log | tail -1)"
  grep -E "^VIOLATION|^KNOWN-FINDING|^NOTE|HARNESS-ERROR" /tmp/runall_$p.log | cut -c1-220
done
exit $rc
