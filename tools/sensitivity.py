#!/usr/bin/env python3
"""Sensitivity self-test: small source mutants of EasyFEA, each applied to a scratch worktree of /repo's
HEAD (outside /repo and /verif, removed afterwards); the quick check of the named property must flag it.

    /venv/bin/python tools/sensitivity.py [name ...]     (no name = all)

Prints one line per mutant: CAUGHT / MISSED / BROKEN (patch does not apply).
"""
import json
import os
import shutil
import subprocess
import sys
import tempfile

VERIF = os.path.dirname(os.path.dirname(os.path.abspath(__file__)))
PY = "/venv/bin/python"

# name: (property, file, old, new)
MUTANTS = {
    # ---- C14
    "c14-update-no-need-update": ("C14", "EasyFEA/Simulations/_simu.py",
        "        if isinstance(observable, _IModel):\n            self.Need_Update()\n        elif isinstance(observable, Mesh):",
        "        if isinstance(observable, _IModel):\n            pass\n        elif isinstance(observable, Mesh):"),
    # (dropped as equivalent: removing clear_cached_computed_values from the mesh setter changes nothing observable,
    #  every memo key contains the identity of the element groups of the new mesh)
    "c14-coord-setter-silent": ("C14", "EasyFEA/FEM/_mesh.py",
        "            groupElem.coord = coord\n        self._Notify(\"The mesh has been modified\")\n",
        "            groupElem.coord = coord\n"),
    "c14-groupelem-coord-keeps-cache": ("C14", "EasyFEA/FEM/_group_elem.py",
        "        self.__coord = coord[self.nodes]\n        self._InitMatrix()\n",
        "        self.__coord = coord[self.nodes]\n"),
    "c14-rho-no-update": ("C14", "EasyFEA/Utilities/_params.py",
        "        if isinstance(instance, Updatable):\n            instance.Need_Update()\n",
        "        if isinstance(instance, Updatable) and self._Parameter__name != 'rho':\n            instance.Need_Update()\n"),
    "c14-rayleigh-no-update": ("C14", "EasyFEA/Simulations/_elastic.py",
        "        self.__coefK = coefK\n        self.Need_Update()\n",
        "        self.__coefK = coefK\n"),
    # ---- C15
    "c15-get-results-no-copy": ("C15", "EasyFEA/Simulations/_simu.py",
        "        return entry.copy()\n",
        "        return entry\n"),
    "c15-inelastic-state-no-copy": ("C15", "EasyFEA/Simulations/_inelastic.py",
        "        iter[\"state\"] = {et: arr.copy() for et, arr in self.__zOld.items()}\n",
        "        iter[\"state\"] = self.__zOld\n"),
    "c15-getter-no-copy": ("C15", "EasyFEA/Simulations/_simu.py",
        "        arr = self.__dict_u_n[problemType].copy()\n",
        "        arr = self.__dict_u_n[problemType]\n"),
    "c15-setiter-ignores-mesh": ("C15", "EasyFEA/Simulations/_simu.py",
        "            self.__Update_mesh(indexMesh)\n            self.__indexMesh = indexMesh\n",
        "            self.__indexMesh = indexMesh\n"),
    "c15-folder-not-pinned": ("C15", "EasyFEA/Simulations/_simu.py",
        "            self.__list_results.append(path)\n",
        "            self.__list_results.append(Folder.os.path.relpath(path, self.folder))\n"),
    "c15-update-mesh-no-need-update": ("C15", "EasyFEA/Simulations/_simu.py",
        "        clear_cached_computed_values(self)\n\n        self.Need_Update()  # need to reconstruct matrices\n",
        "        clear_cached_computed_values(self)\n"),
    "c15-loaded-mesh-not-adapted": ("C15", "EasyFEA/Simulations/_simu.py",
        "            mesh = self._Adapt_loaded_mesh(Load_Mesh(Folder.Join(folder, mesh)))\n",
        "            mesh = Load_Mesh(Folder.Join(folder, mesh))\n"),
    "c20-ghost-search-among-the-nodes-of-the-same-type": ("C20", "EasyFEA/FEM/_mesher.py",
        "                mask = np.isin(other_connect, ownedNodes_arr).any(axis=1)\n",
        "                mask = np.isin(other_connect, nodes_arr).any(axis=1)\n"),
    "c19-jacobian-without-the-backstress-branch-block": ("C19", "EasyFEA/Models/InElastic/_behavior.py",
        "                    J_e_pg[..., Bk, slot] = branch.g * dG_e_pg * dNdSig_C\n",
        "                    pass\n"),
    "c11-anisotropic-3d-voigt-taken-as-kelvin-mandel": ("C11", "EasyFEA/Models/Elastic/_laws.py",
        "        else:\n            C_mandel_global = C_mandel\n",
        "        else:\n            C_mandel_global = C\n"),
    # ---- C03
    "c03-csr-key-without-ndof": ("C03", "EasyFEA/Simulations/_simu.py",
        "        inv, indices, indptr, nnz = self.__Get_csr_map(dof_n, isMatrix, Ndof, groups)\n",
        "        inv, indices, indptr, nnz = self.__Get_csr_map(dof_n, isMatrix, max(Ndof, 0) if not hasattr(self, '_ndof0') else self._ndof0, groups)\n        self._ndof0 = getattr(self, '_ndof0', Ndof)\n"),
    "c03-flag-lowered-before-assembly-finishes": ("C03", "EasyFEA/Simulations/_simu.py",
        "            self.__K, self.__C, self.__M, self.__F = self.Assembly(problemType)\n            self.Need_Update(False)\n",
        "            self.Need_Update(False)\n            self.__K, self.__C, self.__M, self.__F = self.Assembly(problemType)\n"),
    "c03-drops-imaginary": ("C03", "EasyFEA/Simulations/_simu.py",
        "            ) + 1j * np.bincount(inv, weights=data.imag, minlength=nnz)\n",
        "            ) + 0j * np.bincount(inv, weights=data.imag, minlength=nnz)\n"),
    "c03-group-order": ("C03", "EasyFEA/Simulations/_simu.py",
        "        data = np.concatenate([dict_group_data[g].ravel() for g in groups])\n",
        "        data = np.concatenate([dict_group_data[g].ravel() for g in reversed(groups)])\n"),
    # ---- C05
    "c05-newmark-corrector-gamma": ("C05", "EasyFEA/Simulations/_simu.py",
        "            vt_np1 = v_n + dt * (1 - gamma) * a_n\n\n            a_np1 = (u_np1 - ut_np1) / (beta * dt**2)\n",
        "            vt_np1 = v_n + dt * gamma * a_n\n\n            a_np1 = (u_np1 - ut_np1) / (beta * dt**2)\n"),
    "c05-hht-coefC": ("C05", "EasyFEA/Simulations/_simu.py",
        "            coefC = (1 - alpha) * gamma / (beta * dt)\n",
        "            coefC = gamma / (beta * dt)\n"),
    "c05-midpoint-rhs-K": ("C05", "EasyFEA/Simulations/_simu.py",
        "            b += (coefM * M + coefC * C - 1 / 2 * K) @ u_n\n",
        "            b += (coefM * M + coefC * C - K) @ u_n\n"),
    "c05-euler-implicit-rhs": ("C05", "EasyFEA/Simulations/_simu.py",
        "            b += (1 / dt * M) @ v_n\n",
        "            b += (1 / dt * M + C) @ v_n\n"),
    "c05-parabolic-corrector": ("C05", "EasyFEA/Simulations/_simu.py",
        "            vt_np1 = u_n + ((1 - alpha) * dt * v_n)\n",
        "            vt_np1 = u_n + (alpha * dt * v_n)\n"),
    "c05-hht-newmark-shift": ("C05", "EasyFEA/Simulations/_simu.py",
        "            b -= alpha * K @ u_n\n",
        "            b -= (1 - alpha) * K @ u_n\n"),
    "c05-explicit-constraint": ("C05", "EasyFEA/Simulations/_simu.py",
        "            dofsValues = np.zeros_like(dofsValues)\n",
        "            dofsValues = dofsValues\n"),
    # ---- C11
    "c11-sqrt-cache-never-refreshed": ("C11", "EasyFEA/Models/Elastic/_laws.py",
        "        if self.__sqrt_C is None or self.__sqrt_S is None:\n",
        "        if (self.__sqrt_C is None or self.__sqrt_S is None) and not getattr(self, \"_sq\", False):\n            self._sq = True\n"),
    "c11-model-update-no-notify": ("C11", "EasyFEA/Models/_utils.py",
        "        if value:\n            self._Notify(\"The model has been modified.\")\n",
        "        if value and False:\n            self._Notify(\"The model has been modified.\")\n"),
    "c11-read-keeps-stale-C": ("C11", "EasyFEA/Models/Elastic/_laws.py",
        "        if self.needUpdate:\n            self._Update()\n            self.Need_Update(False)\n        return self.__C.copy()\n",
        "        if self.needUpdate and not hasattr(self, '_once'):\n            self._once = True\n            self._Update()\n            self.Need_Update(False)\n        return self.__C.copy()\n"),
    # ---- C04
    "c04-duplicates-last-wins": ("C04", "EasyFEA/Simulations/_simu.py",
        "            x = sparse.csr_matrix(\n                (dofsValues, (dofs, np.zeros_like(dofs))),\n                shape=(size, 1),\n                dtype=np.float64,\n            )\n",
        "            _x = np.zeros(size)\n            _x[dofs] = dofsValues\n            x = sparse.csr_matrix(_x[:, None])\n"),
    "c04-lagrange-row-value": ("C04", "EasyFEA/Simulations/Solvers.py",
        "            b[i] = values[0]\n",
        "            b[i] = 0.0\n"),
    "c04-orphan-diagonal-dropped": ("C04", "EasyFEA/Simulations/_simu.py",
        "            diag[orphanDofs] = 1.0\n            A = A + sparse.diags(diag, format=\"csr\")\n            # Matplotlib.Init_Axes().spy(A)",
        "            diag[orphanDofs] = 0.0\n            A = A + sparse.diags(diag, format=\"csr\")\n            # Matplotlib.Init_Axes().spy(A)"),
    "c04-aic-sign": ("C04", "EasyFEA/Simulations/Solvers.py",
        "    bi -= Aic @ xc\n",
        "    bi -= 0.5 * (Aic @ xc)\n"),
    "c04-dof-lookup-order": ("C04", "EasyFEA/FEM/_boundary_conditions.py",
        "            idx = availableUnknowns.index(direction)\n",
        "            idx = d if len(unknowns) == len(availableUnknowns) else availableUnknowns.index(direction)\n"),
    # ---- C19
    "c19-save-iter-no-copy": ("C19", "EasyFEA/Simulations/_inelastic.py",
        "        self.__zOld = {et: arr.copy() for et, arr in self.__z.items()}\n",
        "        self.__zOld = self.__z\n"),
    "c19-construct-commits": ("C19", "EasyFEA/Simulations/_inelastic.py",
        "            self.__z[groupElem.elemType] = z_e_pg\n",
        "            self.__z[groupElem.elemType] = z_e_pg\n            self.__zOld[groupElem.elemType] = z_e_pg\n"),
    "c19-spectral-p-sign": ("C19", "EasyFEA/Models/InElastic/_behavior.py",
        "        z_e_pg[..., A.start] = pOld_e_pg + res.dGamma\n",
        "        z_e_pg[..., A.start] = pOld_e_pg - res.dGamma\n"),
    "c19-condense-sign": ("C19", "EasyFEA/Models/InElastic/_behavior.py",
        "        return C_in - TensorProd(c_iz, c_zi) / c_zz\n",
        "        return C_in + TensorProd(c_iz, c_zi) / c_zz\n"),
    "c19-planestress-loose": ("C19", "EasyFEA/Models/InElastic/_behavior.py",
        "            if np.max(np.abs(r_e_pg)) < tol:\n                break\n",
        "            if np.max(np.abs(r_e_pg)) < 1e6 * tol:\n                break\n"),
    # ---- C17
    "c17-2d-discriminant-not-clipped": ("C17", "EasyFEA/Models/_phasefield.py",
        "            delta = np.clip(tr_e_pg**2 - (4 * det_e_pg), 0, None)\n",
        "            delta = tr_e_pg**2 - (4 * det_e_pg)\n"),
    "c17-3d-repeated-value-sign": ("C17", "EasyFEA/Models/_phasefield.py",
        "                    val2_np[case2][:, None, None] * eye - mat_np[case2]\n",
        "                    val1_np[case2][:, None, None] * eye - mat_np[case2]\n"),
    "c17-3d-exact-equality-cases": ("C17", "EasyFEA/Models/_phasefield.py",
        "            case2 = g_neq_0 & (arg_np <= -1 + 1e-10)\n",
        "            case2 = g_neq_0 & (arg_np == -1)\n"),
    "c18-neohookean-energy-not-the-potential-of-its-stress": ("C18", "EasyFEA/Models/HyperElastic/_laws.py",
        "        W = K * (I1 / I3 ** (1 / 3) - 3)\n\n        return W\n",
        "        W = K * (I1 / I3 ** (1 / 3) - 3) + 0.02 * K * (I1 - 3) ** 2\n\n        return W\n"),
    "c18-gonzalez-tangent-unscaled": ("C18", "EasyFEA/Simulations/_hyperelastic.py",
        "                F_e -= np.einsum(\n                    \"eij,ej->ei\",\n                    M_e,\n",
        "                F_e -= 0.5 * np.einsum(\n                    \"eij,ej->ei\",\n                    M_e,\n"),
    "c19-save-iter-moves-trial": ("C19", "EasyFEA/Simulations/_inelastic.py",
        "        self.__zOld = {et: arr.copy() for et, arr in self.__z.items()}\n",
        "        self.__zOld, self.__z = self.__z, {}\n"),
    "c11-getter-returns-reference": ("C11", "EasyFEA/Utilities/_params.py",
        "        return copy.copy(instance.__dict__[self.__name])\n",
        "        return instance.__dict__[self.__name]\n"),
    "c17-history-max-dropped": ("C17", "EasyFEA/Simulations/_phasefield.py",
        "            psiP_e_pg[elements, gaussPoints] = old_psiPlus_e_pg[elements, gaussPoints]\n",
        "            pass\n"),
    "c17-historydamage-not-stored": ("C17", "EasyFEA/Simulations/_phasefield.py",
        "            self._Set_solutions(self.ProblemTypes.damage, d_np1)\n            self.__updatedDisplacement = False\n",
        "            pass\n"),
    "c17-boundconstrain-lb": ("C17", "EasyFEA/Simulations/_phasefield.py",
        "                lb = self.damage\n                lb[np.where(lb >= 1)] = 1 - np.finfo(float).eps\n",
        "                lb = self.damage * 0.5\n                lb[np.where(lb >= 1)] = 1 - np.finfo(float).eps\n"),
    # ---- C18
    "c18-midpoint-corrector": ("C18", "EasyFEA/Simulations/_simu.py",
        "            v_np1 = 2 / dt * (u_np1 - u_n) - v_n\n            a_np1 = 2 / dt * (v_np1 - v_n) - a_n\n\n            return u_np1, v_np1, a_np1\n",
        "            v_np1 = 2 / dt * (u_np1 - u_n) - 0.999 * v_n\n            a_np1 = 2 / dt * (v_np1 - v_n) - a_n\n\n            return u_np1, v_np1, a_np1\n"),
    "c18-mass-not-in-residual": ("C18", "EasyFEA/Simulations/_hyperelastic.py",
        "                    groupElem.Locates_sol_e(accel, dim),\n",
        "                    0.98 * groupElem.Locates_sol_e(accel, dim),\n"),
    # ---- C20
    "c20-ghost-layer-one-rank-short": ("C20", "EasyFEA/FEM/_mesher.py",
        "                mask = np.isin(other_connect, nodes_arr).any(axis=1)\n",
        "                mask = np.isin(other_connect, nodes_arr).any(axis=1) & (other_rank != rank + 1)\n"),
    "c20-energy-all-rows": ("C20", "EasyFEA/Simulations/_simu.py",
        "        return Reduce_sum(0.5 * x[dofs] @ (A[dofs] @ x))\n",
        "        return Reduce_sum(0.5 * x @ (A @ x))\n"),
    "c20-reaction-not-restricted": ("C20", "EasyFEA/Simulations/_simu.py",
        "            dofs = dofs[np.isin(dofs, ownedDofs)]\n",
        "            dofs = dofs\n"),
    "c20-interface-node-two-owners": ("C20", "EasyFEA/FEM/_mesher.py",
        "            nodes = set(connect_r.ravel()) - otherRankNodes\n",
        "            nodes = set(connect_r.ravel()) - (otherRankNodes if rank % 2 == 0 else set())\n"),
    "c20-sync-order": ("C20", "EasyFEA/Utilities/_mpi.py",
        "    full[ordering] = buf\n",
        "    full[np.sort(ordering)] = buf\n"),
    "c20-local-slice-owned-only": ("C20", "EasyFEA/Simulations/_simu.py",
        "        nodes = self.mesh.nodes\n\n        iter = iter.copy()\n",
        "        nodes = self.mesh._Get_mpi_owned_nodes()\n\n        iter = iter.copy()\n"),
    # ---- reverts of the repairs of waves 14-15
    "c17-bounds-for-every-dof": ("C17", "EasyFEA/Simulations/Solvers.py",
        "        lb, ub = lb[dofsUnknown], ub[dofsUnknown]\n",
        "        pass\n"),
    "c15-beam-iteration-without-rates": ("C15", "EasyFEA/Simulations/_beam.py",
        "            iter[\"speed\"] = self._Get_v_n(self.problemType)\n            iter[\"accel\"] = self._Get_a_n(self.problemType)\n",
        "            pass\n"),
    "c14-history-mesh-not-observed": ("C14", "EasyFEA/Simulations/_simu.py",
        "        # hear about later modifications of the mesh it works on\n        mesh._Add_observer(self)\n",
        "        # hear about later modifications of the mesh it works on\n"),
    "c14-return-map-built-once": ("C14", "EasyFEA/Models/InElastic/_behavior.py",
        "        if self.__eigen is None or not np.array_equal(C, self.__eigen_C):\n",
        "        if self.__eigen is None:\n"),
    "c17-one-history-array-for-all-groups": ("C17", "EasyFEA/Simulations/_phasefield.py",
        "                history.get(groupElem.elemType) if isinstance(history, dict) else None\n",
        "                next(iter(history.values()), None) if isinstance(history, dict) and len(history) else None\n"),
    "c11-get-pmat-times-norm": ("C11", "EasyFEA/Models/_utils.py",
        "        axis_1,\n        1 / np.linalg.norm(axis_1, axis=0),\n",
        "        axis_1,\n        np.linalg.norm(axis_1, axis=0),\n"),
}


def run(name):
    prop, rel, old, new = MUTANTS[name]
    wt = tempfile.mkdtemp(prefix=f"mut_{name}_", dir="/tmp")
    os.rmdir(wt)
    try:
        subprocess.run(["git", "-C", "/repo", "worktree", "add", "--detach", "-q", wt, "HEAD"], check=True, capture_output=True)
        path = os.path.join(wt, rel)
        src = open(path).read()
        if src.count(old) != 1:
            return "BROKEN", f"pattern occurs {src.count(old)}x in {rel}"
        open(path, "w").write(src.replace(old, new))
        env = dict(os.environ, VERIF_REPO=wt, SIMKIT_NO_EVIDENCE="1")
        extra = sys_extra.get(prop, [])
        p = subprocess.run([PY, "-m", "simkit.check", prop, "--tier", "quick"] + extra, cwd=VERIF, env=env, capture_output=True, text=True, timeout=1800)
        lines = [l for l in p.stdout.splitlines() if l.startswith("VIOLATION") or l.startswith("  invariant") or l.startswith("[")]
        if p.returncode == 1:
            return "CAUGHT", " | ".join(lines[:2])[:300]
        if p.returncode == 0:
            return "MISSED", " | ".join(lines[-1:])[:300]
        return "HARNESS", (p.stderr or p.stdout)[-600:]
    finally:
        subprocess.run(["git", "-C", "/repo", "worktree", "remove", "--force", wt], capture_output=True)
        shutil.rmtree(wt, ignore_errors=True)


sys_extra = {}

if __name__ == "__main__":
    names = sys.argv[1:] or list(MUTANTS)
    out = {}
    for n in names:
        verdict, info = run(n)
        out[n] = verdict
        print(f"{verdict:8s} {n:40s} {MUTANTS[n][0]}  {info}", flush=True)
    print(json.dumps(out))
    sys.exit(0 if all(v == "CAUGHT" for v in out.values()) else 1)
