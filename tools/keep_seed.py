#!/usr/bin/env python3
"""Stores a confirmed seeded change under /verif/seeded/<key>/ (patch.diff, demo.py, NOTES.md, meta.json).

    python3 tools/keep_seed.py <worktree> <key> <property> "<needs>" "<caught by / result of my check>" "<verification>"
"""
import json
import os
import shutil
import sys

wt, key, prop, needs, caught, verified = sys.argv[1:7]
dst = os.path.join(os.path.dirname(os.path.dirname(os.path.abspath(__file__))), "seeded", key)
os.makedirs(dst, exist_ok=True)
for f in ("patch.diff", "demo.py", "NOTES.md"):
    shutil.copy(os.path.join(wt, "_seed", f), os.path.join(dst, f))
meta = {
    "key": key,
    "property": prop,
    "origin": "written by an independent sub-agent that was given only the property text and a scratch worktree of /repo",
    "needs_to_manifest": needs,
    "confirmed": verified,
    "check_result": caught,
    "how_to_rerun": f"git -C /repo apply /verif/seeded/{key}/patch.diff && /venv/bin/python -m simkit.check {prop} --tier quick ; git -C /repo checkout -- .",
}
json.dump(meta, open(os.path.join(dst, "meta.json"), "w"), indent=1)
print("kept", dst)
