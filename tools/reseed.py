#!/usr/bin/env python3
"""Re-runs the quick check (a quarter of its seeds) of every kept seeded change against /repo's HEAD + the change, in a
scratch worktree under /tmp that is removed afterwards.  Prints CAUGHT / MISSED / NOAPPLY per change.

    /venv/bin/python tools/reseed.py [key ...]
"""
import json
import os
import subprocess
import sys
import tempfile

VERIF = os.path.dirname(os.path.dirname(os.path.abspath(__file__)))
sys.path.insert(0, VERIF)
from simkit.plans import PLANS  # noqa: E402

keys = sys.argv[1:] or sorted(os.listdir(os.path.join(VERIF, "seeded")))
out = {}
for key in keys:
    d = os.path.join(VERIF, "seeded", key)
    meta = json.load(open(os.path.join(d, "meta.json")))
    prop = meta["property"]
    # three changes break C14's statement although they were assigned to another property
    run_prop = "C14" if key in ("c17-setiter-keeps-systems-of-discarded-attempt", "c03-update-mesh-no-longer-asks-for-an-update", "c04-orphan-dofs-memoised-across-mesh-replacement") else prop
    wt = tempfile.mkdtemp(prefix="reseed_", dir="/tmp")
    os.rmdir(wt)
    subprocess.run(["git", "-C", "/repo", "worktree", "add", "--detach", wt, "HEAD"], capture_output=True)
    try:
        r = subprocess.run(["git", "-C", wt, "apply", "--3way", os.path.join(d, "patch.diff")], capture_output=True, text=True)
        if r.returncode != 0:
            r = subprocess.run(["git", "-C", wt, "apply", os.path.join(d, "patch.diff")], capture_output=True, text=True)
        if r.returncode != 0:
            out[key] = "NOAPPLY"
            print(f"NOAPPLY  {key}", flush=True)
            continue
        plan = PLANS[run_prop][1]["quick"]
        env = dict(os.environ, VERIF_REPO=wt, SIMKIT_NO_EVIDENCE="1")
        p = subprocess.run(["/venv/bin/python", "-m", "simkit.check", run_prop, "--tier", "quick", "--runs", str(max(plan["runs"] // 3, 150)), "--fault-runs", str(plan["fault_runs"] // 3)],
                           cwd=VERIF, env=env, capture_output=True, text=True, timeout=1500)
        last = [l for l in p.stdout.splitlines() if l.startswith("[")][-1:] or [""]
        verdict = "CAUGHT" if p.returncode == 1 and "VIOLATION" in p.stdout else ("MISSED" if p.returncode == 0 else f"EXIT{p.returncode}")
        out[key] = verdict
        print(f"{verdict:8s} {key:60s} {run_prop} {last[0][:120]}", flush=True)
    finally:
        subprocess.run(["git", "-C", "/repo", "worktree", "remove", "--force", wt], capture_output=True)
print(json.dumps(out))
