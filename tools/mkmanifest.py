#!/usr/bin/env python3
"""Writes /verif/MANIFEST.json from the tables below and validates it (python3-vt tools/mkmanifest.py)."""
import json
import os

HERE = os.path.dirname(os.path.dirname(os.path.abspath(__file__)))
PY = "/venv/bin/python"

NA = {
    "C01": "Pure function of (mesh, material, linear field): one fresh simulation, one solve, compare. No call order, stored state, I/O, back-end failure, clock or second party enters the statement, so there is no schedule or fault for a simulator to search; deciding it is input generation / proof, a different technique.",
    "C02": "Pure function of (element type, mesh, material): eigen-decomposition of a freshly assembled matrix. Nothing in it depends on a schedule, history or fault.",
    "C06": "Polynomial identities on the reference element (exact algebra on tabulated lambdas); no state, time, I/O or interleaving.",
    "C07": "Finite tables of points and weights integrated against monomials; pure, no schedule or fault can change the outcome.",
    "C08": "Functions of (mesh, transformation, query points); the statement names no state whose history matters (cache invalidation after moving a mesh is decided under C14).",
    "C09": "Bc_vector_Neumann() after one add_*Load call is a pure function of (mesh, node set, density); no history, fault or interleaving.",
    "C10": "Compares two independently built problems related by a rigid motion; pure in (problem, motion).",
    "C12": "Pure array function of operands and operator (FeArray algebra); no state, schedule or fault.",
    "C13": "Quantifies over programs (weak forms): deciding it is translation validation of user forms against built-in operators; no schedule, fault or history involved.",
    "C16": "Each named result is a pure function of the current fields and mesh; the only history-related part (result for iteration i equals the one obtained then) is decided under C15.",
}

# property -> dict
CHECKS = {}


def check(pid, engine, text, note, technique, design_ref):
    CHECKS[pid] = {
        "property_id": pid,
        "quick_cmd": f"{PY} -m simkit.check {pid} --tier quick",
        "thorough_cmd": f"{PY} -m simkit.check {pid} --tier thorough",
        "evidence_file": f"/verif/evidence/{pid}.json",
        "replay_cmd_template": f"{PY} -m simkit.replay {{path}}",
        "engine": engine,
        "level_claimed": {"category": "exploration", "text": text, "design_ref": design_ref},
        "level_note": note,
        "technique": technique,
    }


check(
    "C14", "fresh",
    "Seeded search over sequences of public mutators (model parameters, rho, damping, Translate/Rotate/Symmetry, mesh.coord=, simu.mesh=, Bc_Init and re-adding conditions, time-scheme switches, Save_Iter/Set_Iter) interleaved with reads and solves on 1-3 live simulations sharing meshes and models; after every read the live result is compared with a brand-new simulation built from a declarative record of the final configuration. Injected linear-back-end failures inside Solve check that a failed solve leaves the state untouched and the retry equals the unfaulted result; injected allocation failures interrupt an assembly part-way and the repeated read must still equal the fresh build; scripted orderings (multi-mesh histories, 'discarded attempt': save, change the load, solve, Set_Iter(-1), read) are mixed into the random stream; meshes with 0-3 nodes that no element uses (another number on every mesh of a run) and stretched copies of a mesh (same array sizes, other operators) take part in the mesh replacements; a Beam frame actor (parameters, connections, the frame meshed again with the other element type and assigned to simu.mesh) is compared with a frame rebuilt from scratch. Sampling, not enumeration: a clean batch is evidence, not proof. A disk actor (8 % of the runs) drives Elastic / Thermal simulations over two meshes through Save(folder), Load_Simu (the run continues with the loaded object) and Set_Iter onto a mesh read back from its file, then moves / re-coordinates the mesh the simulation works on, writes parameters and compares operators and solution with a simulation built on the current arrays of that mesh. The elastic law an InElastic behaviour was built with is written too; distributed loads are entered again after the mesh was re-coordinated and the conditions cleared.",
    "Trusted: the reference builder (simkit.simlib/meshlib: constructor calls only, no deepcopy), NumPy/SciPy, and that a freshly constructed simulation is correct (that is what C01-C13 are about). Boundary-condition values are resolved at the time they are added (compared then against a fresh simulation) and replayed as resolved arrays afterwards. Solutions of the BoundConstrain phase-field solver (scipy lsq_linear, interior method) are not compared digit-wise (its systems are).",
    "deterministic simulation: seeded op/fault sequences vs fresh-build reference model, ddmin-minimised replay files",
    "DESIGN.md section 5, C14",
)

check(
    "C15", "hist",
    "Seeded search over histories of solve / Save_Iter / folder change / Get_results / Set_Iter / Result(iter=i) / mesh replacement / time-scheme switch / Save / Load_Simu / Mesh.Save+Load_Mesh / scribbling on returned arrays, Save_Iter called bare or with the caller's own dict (one object for every call, rewritten after it), for Elastic (static and dynamic), Thermal, PhaseField, InElastic, HyperElastic, WeakForms and Beam (frame with a connection; a second mesh with moved interior nodes; internal forces fx, fy among the recorded results) simulations with 1-3 meshes in one history (including meshes with nodes that no element uses, meshes with two main-dimension groups, TRI3 + QUAD4, whose group order fixes the element numbering; element-wise results are part of the snapshots), on a simulated disk. Oracle: deep-copied snapshots taken when each iteration was saved (fields, internal variables, mesh digest, named results); after every operation every stored iteration is re-read and compared exactly. A separate fault batch injects EIO/ENOSPC/EACCES on open/write/read and process kills (clean and torn) inside Save_Iter/Save/Get_results/Set_Iter/Load_Simu with the narrowed oracle 'may fail, never wrong data', including restart from what the disk holds. Histories over two meshes are built deliberately and scripted 'save, [load,] restore an iteration of an earlier mesh, save again (same or other folder), load'; Beam frames are also stepped with the dynamic schemes (velocity and acceleration are fields of such an iteration).",
    "Trusted: the snapshot recorder (deep copies through public getters plus the two name-mangled state attributes the property's anchors name: InElastic committed variables, PhaseField history field), pickle, the tmpfs under the simulated disk. Process kill semantics: bytes accepted by write() survive (no power-loss model). Velocity/acceleration are compared after Set_Iter only when the scheme active at restore time stores them. Two open findings are steered around in the random batch and reproduced from their own replay files (known_findings.json).",
    "deterministic simulation with disk-fault and crash injection: seeded op/fault sequences vs snapshot reference model, ddmin-minimised replay files",
    "DESIGN.md section 5, C15",
)

check(
    "C03", "asm",
    "Seeded search over sequences of repeated assemblies interleaved with everything that moves the key of the cached element-to-CSR map (new element values, absent/present slots, real/complex values, Lagrange conditions and Dirichlet dofs changing Ndof, Bc_Init, mesh replacement, node renumbering, coordinate changes, Need_Update, Save_Iter/Set_Iter) on a harness-defined _Simu subclass (bulk + boundary + point groups, boundary groups either the mesh's own or user-built copies with the elements in another order, 1-2 problem types with different dofs per node in one object) and on Thermal / Elastic / PhaseField simulations. After every assembly K, C, M, F are compared (1e-12) with a dense loop summation of the very element arrays Construct_local_matrix_system returned for that call; shape, canonical CSR and complex dtype are checked; renumbering must give P K P^T. A fault batch makes the k-th sparse construction of an assembly fail with MemoryError (assembly interrupted after some slots were built and maps cached): the repeated assembly must be exact and an interrupted Get_K_C_M_F must still ask for an update. Probes count reused vs rebuilt maps. Size is covered by one more actor (0.06 % of the quick runs, 0.2 % of the thorough ones, plus a fixed scenario replay run by every check): a Thermal simulation on a structured QUAD4 grid with 46 656 - 53 361 dofs (row * Ndof + col beyond 32 bits), assembled twice, compared with a sparse COO scatter-add of the element arrays. User-built boundary patches (two sub-sets of the boundary group with the same element type and count, K / M terms on one and C / F terms on the other) that move along the boundary between assemblies.",
    "Trusted: the dense loop reference (simkit.refs.ref_scatter_*), the wrapper that records the element arrays, NumPy. Staleness of Get_K_C_M_F() is not decided here (C14). The clause 'the solution is permuted by renumbering' is covered only through P K P^T (the solve itself is C04).",
    "deterministic simulation: seeded assembly/cache-key histories vs dense scatter-add reference, ddmin-minimised replay files",
    "DESIGN.md section 5, C03",
)
check(
    "C04", "bc",
    "Seeded search over sequences of add_dirichlet (constants, nodal arrays, functions of position; overlapping node sets, duplicated dofs, any order), add_neumann / add_lineLoad / add_surfLoad / add_volumeLoad, generic multi-point Lagrange conditions, beam connections (fixed / hinged) on 2D and 3D frames, Bc_Init, back-end switches (direct, cg, bicg, gmres, lgmres) and Solve, for Elastic (2D/3D), Thermal, linear WeakForms (scalar and vector fields), Beam (Euler-Bernoulli and Timoshenko; solves are generated for clamped and connected frames), HyperElastic (Newton-incremental) and meshes with orphan nodes (all actors). After every Solve: constrained dofs hold the sum of their entries, multi-point constraints are satisfied, the solution equals a dense KKT reference solve of the very K and F the simulation assembled (kappa-scaled; 10*kappa*rtol for iterative back ends), the residual is orthogonal to the constraint null space, nothing is NaN. Newton actors: a brand-new simulation with the same conditions started at the returned solution must find a residual at the level of the Newton tolerances and must not move. Injected back-end failures (for Newton loops also placed relative to the end of the loop, whose length is measured on a discarded twin): the failed Solve leaves the solution untouched and the retry passes all of the above. One caller array is passed for several unknowns and entered again later (load stepping, Bc_Init + re-add); nodal loads are given node by node and what add_neumann adds to the load vector is compared with the entered values held by the reference.",
    "Trusted: the dense reference (simkit.engines.bc._reference), NumPy, K and F as assembled (C01-C03, C09). Duplicated Dirichlet dofs are generated with and without Lagrange conditions (sum of the entries on both solver paths). Distributed loads are generated only on node sets that bound loaded elements. The bounded least-squares back end only accepts bounded problems and is exercised by the phase-field engine. Newton non-convergence with duplicated dofs is flagged only if the same problem with merged entries converges.",
    "deterministic simulation: seeded constraint-call/back-end/fault sequences vs dense KKT reference model, ddmin-minimised replay files",
    "DESIGN.md section 5, C04",
)
check(
    "C05", "dyn",
    "Seeded search over time-stepping histories (Elastic with Rayleigh damping: newmark, hht, hht_newmark, midpoint, backward and forward Euler; Thermal and linear WeakForms: parabolic theta-scheme and hyperbolic schemes): arbitrary prior states (magnitudes from 1e-16 to 1: nothing in a linear scheme may depend on the units), parameters drawn from the accepted ranges, step size over four decades, load/constraint changes, scheme or step-size switches between steps, Save_Iter/Set_Iter rollback, injected back-end failure + retry, virtual clock jumps. After every step: documented update relations (well-conditioned forms), K u_t + C v_t + M a_t = F on free dofs, constraints, equality with one generic dense reference integrator built from the documented scheme definitions (backward-error based tolerances), weights = derivatives of the evaluation-point states, and discrete energy (conserved by Newmark(1/4,1/2) and midpoint, non-increasing for backward Euler) in free undamped motion. The incremental (Newton) path is driven by a HyperElastic actor under newmark / hht / hht_newmark / midpoint / backward Euler: update relations and R_int(u_t) + M a_t = f_ext on the free dofs (internal force from a brand-new static simulation assembled at u_t), with failed steps retried after a change of step size or scheme. A Beam actor (12 % of the runs) steps frames of 2-3 beams (Euler-Bernoulli / Timoshenko, 2D / 3D, SEG2 / SEG3; fixed / hinged connections = Lagrange path, or none) with newmark / hht / hht_newmark / midpoint / backward Euler, changing scheme, step size, modulus and density between steps: constraints (sum convention + connections) held, update relations, equality with a dense null-space reference step, K u_t + M a_t = F on the null space of the constraints, energy in free motion from a projected state.",
    "Trusted: the reference integrator (simkit.engines.dyn.ref_states/ref_step, transcribed from the AlgoType and Solver_Set_Parabolic_Algorithm docstrings), dense NumPy algebra, K/C/M/F as returned by Get_K_C_M_F (their correctness is C01-C03). Parabolic alpha is drawn from (0.05, 1]; alpha = 0 is documented but divides by zero and is not generated. The Newton actor uses the pointwise stress only (the other stress options are C18's).",
    "deterministic simulation: seeded step/parameter/state/fault histories vs generic reference integrator, ddmin-minimised replay files",
    "DESIGN.md section 5, C05",
)

check(
    "C11", "law",
    "PARTIAL CLAIM - only the clause 'changing a parameter changes the law on next read'. Seeded search over sequences of parameter writes (scalars and per-element / per-Gauss-point fields), plane-stress toggles, Set_C (Voigt / Kelvin-Mandel) and reads of C, S, Get_sqrt_C_S, Walpole_Decomposition on Isotropic, TransverselyIsotropic, Orthotropic and Anisotropic laws (2D/3D, unnormalised orthogonal axes), observed by 0-2 real Elastic simulations. Oracle: a law freshly constructed with the final parameters returns byte-identical C and S; arrays returned by parameter reads are overwritten in place (no assignment: the law must not change, now or after the next write); equal-value writes and writes the setter rejects are generated on purpose (they must neither cancel a pending change nor leave a trace); whenever a write leaves an update flag down the law and the observers' matrices are read at once and must be those of the final parameters; observers reassemble the K of the final law; on every reached state C = C^T, C.S = I, eig(C) > 0, sqrt(C)^2 = C, and three independent dense references for the notation / rotation / reduction clauses: an Anisotropic law equals the entered matrix (Voigt or Kelvin-Mandel) rotated as a fourth-order tensor by Q = [e1 e2 e1 x e2] with numpy.einsum; a TransverselyIsotropic / Orthotropic law with axes (a1, a2) equals its material matrix (axes on the global ones) rotated the same way; a homogeneous 2D law equals the plane-stress / plane-strain reduction of a 3D law of the same class (invariants on visited states only, not over all parameters). On every axis pair a history holds (as entered, not normalised) the public change-of-basis helper Models.Get_Pmat must return an orthogonal matrix.",
    "NOT decided: SPD / inverse / plane-stress and plane-strain reductions / notation / rotation as statements over all admissible parameters (pure functions of the input; they are evaluated only on the states the histories reach). Parameter sets that a freshly built law rejects in the same way as the live one (differential rule) are counted, not flagged.",
    "deterministic simulation: seeded write/read histories vs freshly-built reference law, ddmin-minimised replay files",
    "DESIGN.md section 5, C11",
)
check(
    "C17", "pf",
    "PARTIAL CLAIM - the irreversibility clauses, and the split clauses on the states the histories visit. Seeded search over load / unload / reverse / shear / zero-load / rigid-translation / homogeneous-strain histories (prescribed u = A x with repeated principal strains: equibiaxial, hydrostatic, confined and uniaxial patterns, whose computed principal values coincide exactly or up to round-off) (optionally a second degenerate pattern on the other half of the body, so that one call of the decomposition sees several degenerate kinds and generic points) of the staggered phase-field solver for all 14 splits x {AT1, AT2} x {History, HistoryDamage, BoundConstrain} on isotropic, transversely isotropic and anisotropic materials (2D) and isotropic 3D bodies (hexahedra, tetrahedra, prisms), including rigid translations (strains at round-off level: the repeated-eigenvalue branches of the spectral decomposition), with varying tolConv / maxIter / convergence option, Save_Iter, Set_Iter(i, resetAll) rollback and injected back-end failures inside the staggered loop. At every saved step: the stored history energy never decreases pointwise; for the two damage-based solvers the saved nodal damage never decreases; BoundConstrain keeps the damage within [previous damage, 1] (the bounded least-squares back end of C04); an all-zero load history leaves the damage at zero. On every visited strain state: sigma+ + sigma- = C:eps, psi+ + psi- = 1/2 eps:C:eps, all finite; on every visited strain and stress tensor the spectral projector P+ applied to the tensor equals the positive part given by numpy.linalg.eigh (1e-7 relative) and P+ + P- is the identity. A fifth of the runs prescribe the damage (0, 0.6 or 1) on one or two nodes for every irreversibility solver: the values must be held and Solve must not raise.",
    "NOT decided: the split and projector clauses as statements over ALL strain tensors (pure functions of the input): they are evaluated only on the tensors the simulated histories reach (which include zero, hydrostatic, uniaxial, equibiaxial and round-off-degenerate states in 2D and 3D); the 4th-order projector is checked through its action on the tensor it was built from, not as a derivative. One open finding (AT1 with a vanishing positive energy gives a singular damage system and NaN) is steered around in the random batch by a damage-free clamp and reproduced from its own replay file.",
    "deterministic simulation: seeded load/solve/save/rollback/fault histories, monotonicity oracles over the recorded history, ddmin-minimised replay files",
    "DESIGN.md section 5, C17",
)
check(
    "C18", "hyper",
    "PARTIAL CLAIM - the discrete energy-balance clause and, on the visited states only, the Newton-system consistency clause. Seeded trajectories of free motion (clamped or free bodies; static preload and/or random initial velocity) under the midpoint scheme (two thirds of the runs; the others step newmark, hht or backward Euler with the consistency oracles only) with the gonzalez stress, the adaptive quadrature stress (energyTol = 1e-10), fixed strain-path rules (1, 2, 3, 5 points: exactly conserving for Saint-Venant-Kirchhoff, whose dW/de is linear) and the pointwise stress (not conserving: consistency checks only), optionally with Kelvin-Voigt viscosity or an active fibre stress (non-conservative: consistency checks only), for NeoHookean, Mooney-Rivlin, Ciarlet-Geymonat, Saint-Venant-Kirchhoff and Holzapfel-Ogden (two fibre families, every term switched on) laws, step-size changes and density changes between steps (the energy constant is re-based at the change; the kinetic energy uses the first assembled mass scaled by the ratio of the densities, never a mass re-read from the simulation), Save_Iter / Set_Iter rollback and injected back-end failures inside a Newton iteration followed by a retry. Invariant after every step: |KE + W - E0| <= 1e-5 of the energy scale; a failed step leaves (u, v, a) untouched; rollback returns to the recorded energy. At trial states away from u_n along the trajectory: A = coefK K + coefC C + coefM M applied to a direction equals the central difference of the assembled residual (scheme, stress option and previous state included). On states of the trajectory: the internal force assembled by a brand-new static simulation, contracted with a random direction, equals the central difference of the total stored energy along it; the deformed body turned as a whole (x' = Q (X + u), random Q) has the same stored energy and internal forces turned by Q. At the reference state each run starts from: W = 0, zero internal force, the unloaded static solve does not move the body. A surface-operator actor (30 % of the runs; HEXA8 / TETRA4 / PRISM6 / TETRA10 / HEXA20 and 2D meshes) wires FollowingPressure and PenaltyContact against a rigid plane into a HyperElastic subclass the way the repository's examples do, changes pressures, obstacle and scheme between solves, and checks on the visited states: Newton system = central difference of the residual, the operators alone at their own scale, closed-surface pressure has no resultant and does the work p dV, contact force = minus the derivative of the penalty energy, residual of converged static solves. The active-stress direction is registered again / the tension changed between steps.",
    "NOT decided: stress = dW/de, tangent = d(stress)/de, objectivity (pure); tangent/residual consistency is checked only for the assembled Newton system on visited states, not per operator over all inputs. Runs with a non-converging or inverted step are discarded and counted. The mass matrix is the one the simulation assembles.",
    "deterministic simulation: seeded dynamic trajectories with fault injection, conserved-quantity oracle, ddmin-minimised replay files",
    "DESIGN.md section 5, C18",
)
check(
    "C19", "mat",
    "Seeded strain histories (increments, reversals, unloads, holds, direction changes; points of one element in different regimes) with commit / no-commit / repeat / retry-with-smaller-step call patterns on Behavior.Integrate for every accepted combination of yield surface (none, von Mises, Hill, Drucker-Prager), isotropic hardening (none, Linear, Voce, Swift), 0-2 kinematic components, rate law (none, Norton, Perzyna), 0-2 Maxwell branches, in 3D / plane strain / plane stress; a twin behaviour with solver='newton' in lock-step; Simulations.InElastic on a small mesh with injected back-end failures in the Newton loop, repeated Save_Iter without a solve (holds, checkpoints) and rollbacks. Oracles: stress inside the yield surface, accumulated plastic strain non-decreasing, traceless plastic strain (J2/Hill), dissipation sigma:deps - dpsi >= 0, algorithmic tangent = central difference of the returned stress away from kinks (rate laws and Maxwell branches included, at the dt of the step, with the difference step refined twice when the first quotient disagrees), both local solvers agree, sigma_zz = 0 in plane stress, exact linear elasticity without internal variables, Integrate is pure (committed state byte-identical, repeat calls identical), only Save_Iter advances the committed state, a Save_Iter without a solve since the last commit commits the very same history, committing a solved step never lowers the accumulated plastic strain, a failed-then-retried step equals the unfaulted one.",
    "Admissibility / dissipation checks apply to rate-independent configurations (the tangent check to all); dissipation is skipped with Armstrong-Frederick recall. Points the code flags as non-converged are excluded and counted. Neutral-loading points (on the surface, not flowing) are excluded from tangent comparisons. Finite-difference steps are chosen above the solver tolerances.",
    "deterministic simulation: seeded strain/commit/fault histories with invariant and purity oracles, ddmin-minimised replay files",
    "DESIGN.md section 5, C19",
)
check(
    "C20", "mpi",
    "N = 2..12 simulated MPI ranks in one process (fake mpi4py, stub PETSc), each a baton-passing thread holding one partition produced by the real Mesher._Mesh_Get_Meshes(N) on TRI3/TRI6/QUAD4/QUAD8/TETRA4/TETRA10/HEXA8/PRISM6 meshes; a seeded scheduler chooses which rank runs between collectives (with starvation of one rank and abort + restart of the whole job from the per-rank files as faults); in 40 % of the runs the Mesher that splits the mesh has split another model into another number of parts before. Phase 1 (set model): every element and node owned exactly once, ghost layer = every foreign element touching an owned node and nothing else, local connectivity = owned + ghost rows of the global one, numbering / coordinates / tags preserved, same split twice, Mesh.Merge with mapping restores element count, measure and coordinates. Phase 2 (Dirichlet conditions plus, in 60 % of the runs, a nodal or distributed load applied the way an unchanged user script does on every rank): rows of each rank's K and load vector at its owned dofs equal the global ones; the distributed solution equals a dense global solve on every rank (static runs) or, in 30 % of the runs, (u, v, a) after each step of a time scheme equal the serial step and the mass / capacity rows are complete; Calc_Energy and the sum of Calc_Reaction equal the global values on every rank; per-rank iteration files hold the rank's slice and merge to the full vector after _Gather; per-rank Save / Load_Simu; gathered mesh equals the unpartitioned one; all ranks execute the same collective sequence (otherwise DEADLOCK with per-rank logs). Actors: Elastic, Thermal, linear WeakForms (scalar and vector fields, the Field of each rank bound to the main group of its part), PhaseField, HyperElastic and InElastic (Newton loops under the partition). The merge clause has histories of its own (once per run): lists of 2-4 meshes side by side / on top of each other / apart / with a strut of another dimension between two bodies, merged flat and in two goes (a merged mesh is an input of the next merge), checked from the raw arrays of the inputs (mapping, elements, node positions, nested = flat).",
    "mpi4py and petsc4py are stubs (no real parallel execution, no real PETSc back end): what runs for real is EasyFEA's partitioner and parallel bookkeeping. The serial reference is EasyFEA's own serial assembly on the unpartitioned mesh of the same gmsh model. Merge lists are built from the library meshes and SEG2 struts (2D and 3D); mixed-type meshes are merged only as partition parts.",
    "deterministic simulation of a multi-rank world: seeded rank scheduling over rendez-vous collectives vs serial reference model, ddmin-minimised replay files",
    "DESIGN.md section 5, C20",
)

ENGINES = [
    {"name": "simkit", "path": "/verif/simkit", "serves_properties": sorted(CHECKS), "kind_free_text": "deterministic simulator: seeded scheduler of public-API operations, fault-injecting file/solver/clock seams installed by module-attribute injection, reference models, ddmin shrinker, replay"},
]

MANIFEST = {
    "version": 1,
    "setup_cmd": f"{PY} -m simkit.setup_check",
    "hooks": {
        "guard": "EASYFEA_VERIF",
        "enable": "no source hook exists: every seam is reached by module-attribute injection from /verif (open/pickle on EasyFEA.Simulations._simu and EasyFEA.FEM._mesh, sla/optimize in EasyFEA.Simulations.Solvers, scipy.sparse inside EasyFEA.Simulations._simu (failing allocations), Tic clock, fake mpi4py/petsc4py in sys.modules). The guard name is reserved; nothing reads it.",
        "baseline_off_cmd": "cd /repo && /venv/bin/python -m pytest -ra -q -p no:cacheprovider --timeout=900 --continue-on-collection-errors",
        "source_commits": [],
        "add_only": True,
    },
    "engines": ENGINES,
    "checks": [CHECKS[k] for k in sorted(CHECKS)],
    "notes": "All checks honour VERIF_SEED, VERIF_TIER, VERIF_REPO (tree to import EasyFEA from, default /repo) and VERIF_WORKERS. Exit 0 clean / 1 VIOLATION / 2 harness error. Fixed findings are listed in known_findings.json and their minimised traces are replayed from regress/<id>/ by every run.",
    "not_applicable": [{"property_id": k, "reason": v} for k, v in sorted(NA.items()) if k not in CHECKS],
}
ALL = ["C%02d" % i for i in range(1, 21)]
for _p in ALL:
    if _p not in CHECKS and _p not in NA:
        MANIFEST["not_applicable"].append({"property_id": _p, "reason": "Simulation target per DESIGN.md, but its check is not registered yet in this commit (engine under construction); not claimed until it runs clean and its sensitivity has been shown."})
MANIFEST["not_applicable"].sort(key=lambda d: d["property_id"])

if __name__ == "__main__":
    path = os.path.join(HERE, "MANIFEST.json")
    with open(path, "w") as f:
        json.dump(MANIFEST, f, indent=1)
    try:
        import jsonschema

        jsonschema.validate(MANIFEST, json.load(open("/root/.vp/MANIFEST.schema.json")))
        print("MANIFEST.json valid;", len(MANIFEST["checks"]), "checks,", len(MANIFEST["not_applicable"]), "not applicable")
    except ImportError:
        print("written (jsonschema not available to validate)")
